"""Controlled preemption INSIDE library calls (C16: "on one thread or on many").

The call-level schedules of MC_Interleave treat every public call as atomic.  Real threads are preempted between
any two bytecodes; free-running threads hit a given window only by luck.  This driver makes the schedule explicit:
two scripts of public calls run on two real threads under a baton (exactly one thread runs at a time); a line
tracer counts the library lines the first thread executes and, at its k-th library line, hands the baton to the
second thread, which runs its WHOLE script (a complete exchange of its own on the shared group and parameter
objects), and takes the baton back.  Enumerating k over every library line of the first script is the
preemption-bound-1 exploration of the two scripts (CHESS style).  Each thread records its own trace; the
specification judges every event as a function of that session's own inputs, so no ordering between the threads'
events is needed (and none is guessed).

The entropy function is a second, tracer-free preemption point (`Entropy.hook`): the other script runs, on the same
thread, while the first session is inside its entropy callback (a re-entrant entropy source)."""
import os, sys, threading

from core import *  # noqa


class Baton:
    def __init__(self):
        self.cv = threading.Condition()
        self.turn = 0

    def wait_for(self, me):
        with self.cv:
            while self.turn != me:
                if not self.cv.wait(timeout=300):
                    raise MachineryError("preemption driver: baton lost")

    def give(self, to):
        with self.cv:
            self.turn = to
            self.cv.notify_all()


def lib_prefix():
    return os.path.realpath(os.path.join(REPO, "src")) + os.sep


_libfile = {}


def _is_lib(fn, pre):
    r = _libfile.get(fn)
    if r is None:
        r = _libfile[fn] = os.path.realpath(fn).startswith(pre)
    return r


def trace_lines(script):
    """the library lines (file, line number) the script executes when run alone on this thread, in order"""
    pre = lib_prefix()
    n = []

    def local(frame, event, arg):
        if event == "line":
            n.append((frame.f_code.co_filename, frame.f_lineno))
        return local

    def glob(frame, event, arg):
        if event == "call" and _is_lib(frame.f_code.co_filename, pre):
            return local
        return None
    old = sys.gettrace()
    sys.settrace(glob)
    try:
        script()
    finally:
        sys.settrace(old)
    return n


def choose_points(lines, cap, rng):
    """preemption points: the first and the last visit of every distinct source line first (every program point of the
    library is preempted at least once), then random further visits up to `cap`; all of them when cap allows"""
    total = len(lines)
    if total <= cap:
        return list(range(1, total + 1))
    first, last = {}, {}
    for i, loc in enumerate(lines, 1):
        first.setdefault(loc, i)
        last[loc] = i
    must = sorted(set(first.values()) | set(last.values()))
    if len(must) > cap:
        must = sorted(rng.sample(must, cap))
    rest = [k for k in range(1, total + 1) if k not in set(must)]
    extra = rng.sample(rest, min(len(rest), cap - len(must)))
    return sorted(must + extra)


def run_preempted(script1, script2, k):
    """script1 on thread 1, preempted at its k-th library line by the whole of script2 on thread 2.
    Returns True if the preemption point was reached."""
    pre = lib_prefix()
    baton = Baton()
    errs = []
    state = {"n": 0, "hit": False}

    def local(frame, event, arg):
        if event == "line":
            state["n"] += 1
            if state["n"] == k:
                state["hit"] = True
                baton.give(2)
                baton.wait_for(1)
        return local

    def glob(frame, event, arg):
        if event == "call" and _is_lib(frame.f_code.co_filename, pre):
            return local
        return None

    def t1():
        try:
            baton.wait_for(1)
            sys.settrace(glob)
            try:
                script1()
            finally:
                sys.settrace(None)
        except BaseException as e:       # noqa
            errs.append(e)
        finally:
            baton.give(2)               # the second thread runs (or finishes) when the first is done

    def t2():
        try:
            baton.wait_for(2)
            script2()
        except BaseException as e:       # noqa
            errs.append(e)
        finally:
            baton.give(1)

    th = [threading.Thread(target=t1), threading.Thread(target=t2)]
    baton.turn = 1
    for t in th:
        t.start()
    for t in th:
        t.join()
    if errs:
        raise errs[0]
    return state["hit"]
