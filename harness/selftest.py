"""Binding self-test: corrupt one recorded field of a good trace at a time and require that the trace
specification rejects the corrupted trace.  Writes evidence/selftest.json (not a MANIFEST check)."""
import copy, json, os, sys, time
sys.path.insert(0, os.path.dirname(os.path.abspath(__file__)))
from core import *      # noqa
from drivers import *   # noqa


def flip(h):
    if not h:
        return "00"
    c = h[-1]
    return h[:-1] + ("0" if c != "0" else "1")


def corruptions(trace):
    """yield (description, corrupted trace)"""
    evs = trace["events"]
    for i, ev in enumerate(evs):
        def mk(path, newval, what):
            t = copy.deepcopy(trace)
            d = t["events"][i]
            for k in path[:-1]:
                d = d[k]
            d[path[-1]] = newval
            t["name"] = "%s#%d.%s" % (trace["name"], i + 1, what)
            return what, t
        op = ev["op"]
        out = ev.get("out", {})
        if out.get("t") in ("msg", "key"):
            yield mk(["out", "v"], flip(out["v"]), "%s.out" % op)
            yield mk(["out"], {"t": "err", "v": "ValueError"}, "%s.out->err" % op)
        if out.get("t") == "err":
            yield mk(["out"], {"t": "key" if op == "finish" else "msg", "v": "00" * 32}, "%s.err->value" % op)
            if out["v"] in ("OnlyCallStartOnce", "OnlyCallFinishOnce", "OffSides", "ReflectionThwarted", "SerializedTooEarly",
                            "WrongSideSerialized", "WrongGroupError"):
                yield mk(["out", "v"], "ValueError", "%s.errclass" % op)
        if op == "start" and ev["ent"] and "entfail" not in ev:     # what a FAILING entropy function had served is immaterial
            e2 = copy.deepcopy(ev["ent"])
            e2[-1]["got"] = flip(e2[-1]["got"])
            yield mk(["ent"], e2, "start.entropy")
        if op in ("finish", "serialize", "new", "restore") and not ev["ent"]:
            yield mk(["ent"], [{"req": 1, "got": "00"}], "%s.entropy-drawn" % op)
        # (the password of an instance that never sends or receives anything has no observable consequence)
        if op == "new" and any(e["op"] == "start" and e["inst"] == ev["inst"] and e["out"]["t"] == "msg" for e in evs):
            yield mk(["pw"], flip(ev["pw"]), "new.pw")
        if op == "serialize" and out.get("t") == "blob":
            for k in out["fields"]:
                f2 = dict(out["fields"])
                f2[k] = flip(f2[k]) if k != "side" else "C"
                yield mk(["out", "fields"], f2, "serialize.%s" % k)
            f2 = dict(out["fields"])
            f2["extra"] = "00"
            yield mk(["out", "fields"], f2, "serialize.extra-field")
            yield mk(["out", "raw"], out["raw"] + "ff", "serialize.non-ascii")
        if op == "restore" and out.get("t") == "inst":
            if "outbound" in out:
                yield mk(["out", "outbound"], flip(out["outbound"]), "restore.outbound")
            yield mk(["out"], {"t": "err", "v": "WrongGroupError"}, "restore.inst->err")
        if op == "peek" and out.get("t") == "val":
            yield mk(["out"], {"t": "val", "v": flip(out["v"])}, "peek.outbound")
        if op == "start" and "entfail" in ev:
            t = copy.deepcopy(trace)
            del t["events"][i]["entfail"]
            t["name"] = "%s#%d.start.entfail-removed" % (trace["name"], i + 1)
            yield "start.entfail-removed", t
            yield mk(["out"], {"t": "msg", "v": "41" + "00" * 3}, "start.entfail->msg")
        if op == "serialize" and out.get("t") == "err" and i > 0 and "entfail" in evs[i - 1]:
            yield mk(["out"], {"t": "blob", "raw": "7b7d", "fields": {}}, "serialize.in-limbo->blob")
        if op == "consts":
            for k in ev["vals"]:
                v2 = dict(ev["vals"])
                v2[k] = flip(v2[k])
                yield mk(["vals"], v2, "consts.%s" % k)


def main():
    t0 = time.time()
    uni = Universe()
    mp = Mapper(uni)
    good = []
    for ps, g in [("Pi23", "i23"), ("Ped37", "ed37"), ("P1024", "I1024"), ("PEd25519", "Ed25519")]:
        uni.paramset(ps, grp=g) if g.startswith(("i", "e")) else uni.paramset(ps)
        q = uni.group(g).order()
        for pairing in ("AB", "SS"):
            r = exchange(uni, "good/%s/%s" % (g, pairing), pairing, ps, b"pw", b"pw", (b"a", b"b") if pairing == "AB" else (b"s",),
                         (b"a", b"b") if pairing == "AB" else (b"s",), mp.stream_for(g, 3 % q, redraws=1), mp.stream_for(g, 4 % q),
                         restoreA=1, consts=True)
            ma = r.msg["a"]
            r.start("a", b"")
            r.finish("b", ma)
            r.finish("a", b"A" + ma[1:])
            # an instance whose entropy function raises: limbo, then the retry (the code refuses it)
            r.new("c", "S" if pairing == "SS" else "A", ps, b"pw", b"a", b"" if pairing == "SS" else b"b")
            r.start("c", mp.stream_for(g, 2 % q), fail_after=0)
            r.serialize("c")
            r.start("c", mp.stream_for(g, 2 % q))
            good.append(r.json())
    res, _ = validate_traces(good, uni.header(), label="selftest-good")
    assert all(not r["errs"] for r in res), [r for r in res if r["errs"]]
    bad = []
    for t in good:
        if "Ed25519" in t["name"] or "I1024" in t["name"]:
            bad += [c for k, c in enumerate(corruptions(t)) if k % 4 == 0]
        else:
            bad += list(corruptions(t))
    res, stats = validate_traces([t for _, t in bad], uni.header(), label="selftest-bad")
    accepted = [w + " in " + t["name"] for (w, t), r in zip(bad, res) if not r["errs"]]
    kinds = sorted({w for w, _ in bad})
    out = {"good_traces": len(good), "corrupted_traces": len(bad), "rejected": len(bad) - len(accepted), "accepted": accepted,
           "kinds_of_corruption": kinds, "wall_s": round(time.time() - t0, 1)}
    os.makedirs(os.path.join(VERIF, "evidence"), exist_ok=True)
    json.dump(out, open(os.path.join(VERIF, "evidence", "selftest.json"), "w"), indent=1)
    print(json.dumps({k: v for k, v in out.items() if k != "kinds_of_corruption"}, indent=1))
    return 1 if accepted else 0


if __name__ == "__main__":
    sys.exit(main())
