"""Run checks against the seeded changes in /verif/seeded/<name>/ (patch.diff, demo.py, meta.json).

usage: seedtest.py [--checks C01,C05|all] [name ...]
For each seeded change: copy /repo's working tree to a scratch directory outside /repo and /verif, apply the
patch, confirm that the repository's own tests still pass and that the demonstration fails with the patch (and
passes without), run the targeted check(s) with VERIF_REPO pointing at the copy, and record which checks report a
VIOLATION.  Results go to seeded/<name>/result.json; the scratch copy is removed."""
import json, os, shutil, subprocess, sys, tempfile, time

V = os.path.dirname(os.path.dirname(os.path.abspath(__file__)))
PY = "/venv/bin/python"


def sh(cmd, cwd=None, env=None, timeout=3600):
    e = dict(os.environ)
    e.update(env or {})
    r = subprocess.run(cmd, cwd=cwd, env=e, capture_output=True, text=True, timeout=timeout, shell=isinstance(cmd, str))
    return r.returncode, r.stdout + r.stderr


def run_one(name, checks):
    d = os.path.join(V, "seeded", name)
    meta = json.load(open(os.path.join(d, "meta.json")))
    tmp = tempfile.mkdtemp(prefix="seedrun-")
    res = {"name": name, "property": meta["property"], "at": time.strftime("%Y-%m-%d %H:%M:%S")}
    try:
        copy = os.path.join(tmp, "repo")
        shutil.copytree("/repo", copy, ignore=shutil.ignore_patterns(".git", "__pycache__", ".benchmarks"))
        demo = os.path.join(d, "demo.py")
        env = {"PYTHONPATH": os.path.join(copy, "src"), "PYTHONDONTWRITEBYTECODE": "1"}
        rc0, out0 = sh([PY, demo], cwd=tmp, env=env)
        res["demo_without_patch"] = "PASS" if rc0 == 0 else "FAIL(rc=%d)" % rc0
        rc, out = sh(["patch", "-p1", "-i", os.path.join(d, "patch.diff")], cwd=copy)
        if rc != 0:
            res["error"] = "patch does not apply: " + out[-400:]
            return res
        rc1, out1 = sh([PY, demo], cwd=tmp, env=env)
        res["demo_with_patch"] = "FAIL" if rc1 != 0 else "PASS(!)"
        rct, outt = sh([PY, "-m", "pytest", "-q", "-p", "no:cacheprovider", "src/spake2"], cwd=copy, env=env)
        res["repo_tests_with_patch"] = outt.strip().splitlines()[-1] if outt.strip() else "?"
        res["checks"] = {}
        outdir = os.path.join(tmp, "out")
        for c in checks or meta.get("checks", [meta["property"]]):
            t0 = time.time()
            rcc, outc = sh([os.path.join(V, "check"), c, "--tier", "quick"], cwd=V,
                           env={"VERIF_REPO": copy, "VERIF_OUT": outdir, "VERIF_VERBOSE": "0"}, timeout=7200)
            viol = [l for l in outc.splitlines() if l.startswith("VIOLATION")]
            first = ""
            lines = outc.splitlines()
            for i, l in enumerate(lines):
                if l.startswith("VIOLATION") and i + 1 < len(lines):
                    first = lines[i + 1].strip()[:300]
                    break
            res["checks"][c] = {"rc": rcc, "violations": len(viol), "first": first, "wall_s": round(time.time() - t0, 1),
                                "machinery": [l for l in outc.splitlines() if "MACHINERY" in l][:1]}
    finally:
        shutil.rmtree(tmp, True)
    json.dump(res, open(os.path.join(d, "result.json"), "w"), indent=1)
    return res


if __name__ == "__main__":
    args = sys.argv[1:]
    checks = None
    if args and args[0] == "--checks":
        checks = [f"C{n:02d}" for n in range(1, 19)] if args[1] == "all" else args[1].split(",")
        args = args[2:]
    names = args or sorted(os.listdir(os.path.join(V, "seeded")))
    for n in names:
        if not os.path.exists(os.path.join(V, "seeded", n, "meta.json")):
            continue
        r = run_one(n, checks)
        caught = [c for c, v in r.get("checks", {}).items() if v["rc"] == 1 and v["violations"]]
        print("%-28s prop=%s demo: %s/%s tests: %s caught by: %s %s" % (n, r["property"], r.get("demo_without_patch"), r.get("demo_with_patch"),
              r.get("repo_tests_with_patch"), caught or "NONE", r.get("error", "")))
        for c, v in r.get("checks", {}).items():
            if v["machinery"]:
                print("   ", c, v["machinery"][0][:200])
