"""Common machinery: loading the code under test from the working tree, toy
group instantiation, the tracer, the TLC runner and the evidence writer.

Nothing here computes an expected value: the harness moves bytes between the
real code and TLC.  Expected values come from the TLA+ specification."""
import zlib
import ast, atexit, binascii, hashlib, json, os, re, shutil, subprocess, sys
import tempfile, threading, time, types

VERIF = os.path.dirname(os.path.dirname(os.path.abspath(__file__)))
REPO = os.environ.get("VERIF_REPO", "/repo")
SEED = int(os.environ.get("VERIF_SEED", "0") or 0)
TIER = os.environ.get("VERIF_TIER", "quick")
TLA_JAR = "/opt/veriftools/tla/tla2tools.jar"
CM_JAR = "/opt/veriftools/tla/CommunityModules-deps.jar"
NCPU = os.cpu_count() or 4

hx = lambda b: binascii.hexlify(b).decode("ascii")
unhx = lambda s: binascii.unhexlify(s)


def numhex(n):
    """hex of the minimal big-endian bytes of a non-negative integer"""
    assert n >= 0
    if n == 0:
        return ""
    return hx(n.to_bytes((n.bit_length() + 7) // 8, "big"))


class MachineryError(Exception):
    """the verification machinery itself failed (exit code 2, never a violation)"""


# --------------------------------------------------------------------------
# scratch space (outside /repo and /verif, removed at exit)
# --------------------------------------------------------------------------
_scratch = None


def scratch():
    global _scratch
    if _scratch is None:
        _scratch = tempfile.mkdtemp(prefix="spake2verif-")
        atexit.register(shutil.rmtree, _scratch, True)
    return _scratch


# --------------------------------------------------------------------------
# the code under test
# --------------------------------------------------------------------------
_loaded = {}


def load_repo():
    """import spake2 from $VERIF_REPO/src (the working tree, nothing cached)"""
    if "spake2" in _loaded:
        return _loaded["spake2"]
    os.environ.setdefault("SPAKE2_VERIF", "1")
    src = os.path.join(REPO, "src")
    sys.dont_write_bytecode = True
    sys.path.insert(0, src)
    import spake2
    here = os.path.realpath(spake2.__file__)
    if not here.startswith(os.path.realpath(src) + os.sep):
        raise MachineryError("spake2 imported from %s, not from %s" % (here, src))
    import spake2.spake2, spake2.groups, spake2.util, spake2.params
    import spake2.ed25519_basic, spake2.ed25519_group
    import spake2.parameters.all
    _loaded["spake2"] = spake2
    return spake2


TOY_CURVES = {  # name: (Q, d, L, By): -x^2+y^2 = 1+d x^2 y^2 over GF(Q), 8L points
    "ed37": (37, 2, 5, 10),
    "ed53": (53, 3, 7, 12),
    "ed109": (109, 11, 13, 2),
    "ed149": (149, 3, 17, 9),
    "ed1013": (1013, 22, 131, 4),
}

TOY_INT = {  # name: (p, q, g)
    "i11": (11, 5, 4), "i23": (23, 11, 2), "i31": (31, 5, 2), "i43": (43, 7, 21),
    "i47": (47, 23, 4), "i59": (59, 29, 4), "i71": (71, 7, 30),
    "i263": (263, 131, 4), "i269": (269, 67, 16), "i1019": (1019, 509, 4),
    "i32771": (32771, 113, 30834),
    "i67": (67, 11, 64),        # same q and element size as i23, another p
    "i787": (787, 131, 64),     # same q and element size as i263 (g = 2^6: order 131)
}


_zoo = {}


def zoo():
    """custom (p, q, g) of unusual but valid shapes (harness/zoo.json, written once by gen_zoo.py): safe primes with
    p = 3 and 7 mod 8, q above 2^256, one-byte q in a wide field, p and q exactly filling their bytes, large
    generators, derivation lengths of several hash blocks plus a partial one.  Inputs only: the specification
    re-checks each group it is handed."""
    if not _zoo:
        with open(os.path.join(os.path.dirname(os.path.abspath(__file__)), "zoo.json")) as f:
            for n, z in json.load(f).items():
                _zoo[n] = (int(z["p"], 16), int(z["q"], 16), int(z["g"], 16))
    return _zoo


def medium_group(qbits=40, pbits=72, seed=1):
    """a deterministic custom (p, q, g) of medium size: q prime of qbits bits, p = k*q + 1 prime of pbits bits,
    g = h^k mod p != 1 (input generation only; the specification re-checks the group in C18-style events)"""
    import random
    rng = random.Random(seed * 7919 + qbits * 31 + pbits)

    def is_prime(n):
        if n < 2:
            return False
        for a in (2, 3, 5, 7, 11, 13, 17, 19, 23, 29, 31, 37):
            if n % a == 0:
                return n == a
        d, r = n - 1, 0
        while d % 2 == 0:
            d //= 2
            r += 1
        for a in (2, 3, 5, 7, 11, 13, 17, 19, 23, 29, 31, 37):
            x = pow(a, d, n)
            if x in (1, n - 1):
                continue
            for _ in range(r - 1):
                x = x * x % n
                if x == n - 1:
                    break
            else:
                return False
        return True
    found = False
    while not found:
        q = rng.getrandbits(qbits) | (1 << (qbits - 1)) | 1
        if not is_prime(q):
            continue
        for _ in range(400):                # a few cofactors per q, then another q (narrow cofactor ranges may have none)
            k = rng.getrandbits(pbits - qbits) | (1 << (pbits - qbits - 1))
            k += k % 2
            p = k * q + 1
            if p.bit_length() == pbits and is_prime(p):
                found = True
                break
    h = 2
    while pow(h, k, p) == 1:
        h += 1
    return p, q, pow(h, k, p)


def toy_curve_modules(Q, d, L, By):
    """The library's own ed25519_basic.py / ed25519_group.py from the working
    tree with the right-hand sides of the four top-level constants Q, L, d, By
    replaced.  Every function is the library's text."""
    key = ("curve", Q, d, L, By)
    if key in _loaded:
        return _loaded[key]
    load_repo()
    subst = {"Q": Q, "L": L, "d": d, "By": By}
    path = os.path.join(REPO, "src", "spake2", "ed25519_basic.py")
    tree = ast.parse(open(path).read(), path)
    seen = set()
    for node in tree.body:
        if (isinstance(node, ast.Assign) and len(node.targets) == 1
                and isinstance(node.targets[0], ast.Name) and node.targets[0].id in subst):
            node.value = ast.Constant(subst[node.targets[0].id])
            seen.add(node.targets[0].id)
    if seen != set(subst):
        raise MachineryError("ed25519_basic.py: constants %s not found at top level" % (set(subst) - seen))
    ast.fix_missing_locations(tree)
    name = "spake2._toy_ed25519_basic_%d" % Q
    basic = types.ModuleType(name)
    basic.__package__ = "spake2"
    basic.__file__ = path
    exec(compile(tree, path, "exec"), basic.__dict__)
    gpath = os.path.join(REPO, "src", "spake2", "ed25519_group.py")
    gtree = ast.parse(open(gpath).read(), gpath)
    body = []
    for node in gtree.body:
        if (isinstance(node, ast.ImportFrom) and node.level == 1 and node.module is None
                and [a.name for a in node.names] == ["ed25519_basic"]):
            continue
        body.append(node)
    gtree.body = body
    grp = types.ModuleType("spake2._toy_ed25519_group_%d" % Q)
    grp.__package__ = "spake2"
    grp.__file__ = gpath
    grp.ed25519_basic = basic
    exec(compile(gtree, gpath, "exec"), grp.__dict__)
    _loaded[key] = (basic, grp)
    return basic, grp


# --------------------------------------------------------------------------
# universe: groups and parameter sets by name
# --------------------------------------------------------------------------
_published = None


def published():
    """spec/published.json: released constants, independent of the working tree"""
    global _published
    if _published is None:
        _published = json.load(open(os.path.join(VERIF, "spec", "published.json")))
    return _published


class Universe:
    """Named groups and parameter sets: the live objects of the code under
    test together with the descriptors the specification rebuilds them from
    (numbers and seeds only)."""

    def __init__(self):
        self.groups = {}    # name -> live group object
        self.gdesc = {}     # name -> descriptor
        self.params = {}    # name -> live _Params
        self.pdesc = {}
        self.basic = {}     # name -> ed25519_basic-like module (ed groups)

    def int_group(self, name, p=None, q=None, g=None):
        if name in self.groups:
            return self.groups[name]
        sp = load_repo()
        shipped = {"I1024": sp.groups.I1024, "I2048": sp.groups.I2048, "I3072": sp.groups.I3072}
        if name in shipped:
            G = shipped[name]
            p, q, g = G.p, G.q, G.Base._e
        else:
            if p is None:
                p, q, g = TOY_INT[name] if name in TOY_INT else zoo()[name]
            G = sp.groups.IntegerGroup(p=p, q=q, g=g)
        self.groups[name] = G
        # shipped groups are described to the specification by their PUBLISHED constants, never by the live ones
        self.gdesc[name] = dict(published()["groups"][name]) if name in shipped else \
            {"kind": "int", "p": numhex(p), "q": numhex(q), "g": numhex(g)}
        return G

    def ed_group(self, name):
        if name in self.groups:
            return self.groups[name]
        sp = load_repo()
        if name == "Ed25519":
            basic, G = sp.ed25519_basic, sp.ed25519_group.Ed25519Group
        else:
            basic, gm = toy_curve_modules(*TOY_CURVES[name])
            G = gm.Ed25519Group
        self.groups[name] = G
        self.basic[name] = basic
        if name == "Ed25519":
            pg = published()["groups"]["Ed25519"]
            self.gdesc[name] = {k: pg[k] for k in ("kind", "Q", "d", "L", "By")}
        else:
            self.gdesc[name] = {"kind": "ed", "Q": numhex(basic.Q), "d": numhex(basic.d % basic.Q),
                                "L": numhex(basic.L), "By": numhex(basic.By % basic.Q)}
        return G

    def group(self, name):
        if name in self.groups:
            return self.groups[name]
        if name == "Ed25519" or name in TOY_CURVES:
            return self.ed_group(name)
        return self.int_group(name)

    def paramset(self, name, grp=None, M=b"M", N=b"N", S=b"symmetric"):
        """name: a shipped set (Ed25519, 1024, 2048, 3072) or any name with an
        explicit group and seeds"""
        if name in self.params:
            return self.params[name]
        sp = load_repo()
        shipped = {"PEd25519": ("Ed25519", sp.parameters.all.ParamsEd25519),
                   "P1024": ("I1024", sp.parameters.all.Params1024),
                   "P2048": ("I2048", sp.parameters.all.Params2048),
                   "P3072": ("I3072", sp.parameters.all.Params3072)}
        if name in shipped:
            grp, P = shipped[name]
            self.group(grp)
            # the released seeds (published.json), not whatever the live object says
            M, N, S = [unhx(published()["seeds"][k]) for k in "MNS"]
            if P.group is not self.groups[grp]:
                raise MachineryError("shipped parameter set %s is not over %s" % (name, grp))
        else:
            G = self.group(grp)
            if (M, N, S) == (b"M", b"N", b"symmetric") and (grp in TOY_INT or grp in TOY_CURVES or grp in zoo()):
                M, N, S = self.toy_seeds(grp)
            P = sp.params._Params(G, M=M, N=N, S=S)
        self.params[name] = P
        self.pdesc[name] = {"grp": grp, "M": hx(M), "N": hx(N), "S": hx(S)}
        return P

    def deepcopy_paramset(self, name, of):
        """an equal-but-distinct parameter set: a deep copy of `of` (its own group object, its own elements), described
        to the specification by the same values - for the specification it IS the same parameter set"""
        import copy
        if name not in self.params:
            self.paramset(of) if of in ("PEd25519", "P1024", "P2048", "P3072") else None
            self.params[name] = copy.deepcopy(self.params[of])
            self.pdesc[name] = dict(self.pdesc[of])
        return self.params[name]

    def toy_seeds(self, grp):
        """Seeds for the default parameter set of a toy group.  On tiny integer
        groups the library's default seeds may hit finding F7 (arbitrary_element
        returns the identity or fails its assertion); the first seeds of the
        sequence M, M1, M2, ... that give three distinct non-identity elements
        are used instead.  This selects inputs; it computes no expected value."""
        G = self.group(grp)
        zero = G.Zero.to_bytes()
        seeds, seen = [], set()
        for base in (b"M", b"N", b"symmetric"):
            for k in range(1000):
                seed = base if k == 0 else base + str(k).encode()
                try:
                    e = G.arbitrary_element(seed).to_bytes()
                except Exception:
                    continue
                if e != zero and e not in seen:
                    seen.add(e)
                    seeds.append(seed)
                    break
            else:
                raise MachineryError("no usable seed for %s" % grp)
        return tuple(seeds)

    def header(self):
        return {"groups": dict(self.gdesc), "params": dict(self.pdesc)}


def exc_name(e):
    return type(e).__name__


# --------------------------------------------------------------------------
# tracer: one event per public call, logged at the call's return
# --------------------------------------------------------------------------
_tls = threading.local()


def _entlog():
    if not hasattr(_tls, "ent"):
        _tls.ent = []
    return _tls.ent


class EntropyExhausted(Exception):
    """raised by a scripted entropy function that is asked for far more than any correct sampler needs"""


class EntropySourceError(OSError):
    """what a scripted entropy function raises when the driver makes it fail (os.urandom raises OSError subclasses)"""


class Entropy:
    """entropy_f handed to a session: serves a scripted byte stream (or random
    bytes from a seeded generator) and logs every request.  A script that runs
    out is padded with 0x00 (which every correct sampler accepts at once); a
    caller that still keeps asking (a sampler that never accepts) gets an
    exception after a bounded number of extra requests instead of looping
    forever - the call then fails and the specification reports it."""
    EXTRA = 40

    def __init__(self, script=None, rng=None):
        self.script = script
        self.pos = 0
        self.rng = rng
        self.extra = 0
        self.fail_after = None      # number of requests served before the function raises (None: never)
        self.served = 0
        self.hook = None            # called once, inside the next request (a re-entrant entropy source: other sessions run here)

    def __call__(self, n):
        if self.hook is not None:
            h, self.hook = self.hook, None
            saved, failed = list(_entlog()), getattr(_tls, "entfail", False)
            h()                      # events of other sessions are recorded here, before this call returns
            _entlog()[:] = saved
            _tls.entfail = failed
        if self.fail_after is not None and self.served >= self.fail_after:
            _entlog().append({"req": n, "got": ""})
            _tls.entfail = True
            raise EntropySourceError("entropy source failed")
        self.served += 1
        if self.script is not None:
            got = self.script[self.pos:self.pos + n]
            self.pos += n
            if len(got) < n:      # script exhausted: pad with 0x00 (always accepted)
                self.extra += 1
                if self.extra > self.EXTRA:
                    raise EntropyExhausted("entropy function called %d times after its script ended" % self.extra)
                got = got + bytes(n - len(got))
        else:
            self.extra += 1
            if self.extra > 400:
                raise EntropyExhausted("entropy function called %d times by one instance" % self.extra)
            got = bytes(self.rng.getrandbits(8) for _ in range(n))
        _entlog().append({"req": n, "got": hx(got)})
        return got


class FalsyEntropy(Entropy):
    """the same entropy function, but an object that is falsy (an empty pool has len 0): whether a callable is
    truthy must not matter to the library (`entropy_f or os.urandom` would silently replace it)"""

    def __len__(self):
        return 0


_real_urandom = os.urandom


def _logging_urandom(n):
    got = _real_urandom(n)
    _entlog().append({"req": n, "got": hx(got)})
    return got


def install_urandom_logger():
    os.urandom = _logging_urandom


class Trace:
    """records the public calls made on the sessions of one execution"""

    def __init__(self, name, uni):
        self.name = name
        self.uni = uni
        self.events = []
        self.objs = {}
        self.n = 0
        self.sent = {}        # instance -> element bytes it sent (from the value start() RETURNED; inherited on restore)
        self.blob_src = {}    # serialized state (as parsed JSON) -> instance that produced it
        self.unpeeked = []    # restored instances whose outbound_message attribute has not been read yet

    # The tracer must not disturb what it observes: reading `outbound_message` of a restored instance right after
    # from_serialized() would hide a lazily (re)computed attribute.  Every second restored instance is therefore left
    # untouched until its finish() has returned (or the trace ends); only then is the attribute read (`peek` event).
    # Drivers that need "the message this instance sent" (to reflect it) take it from what start() returned.
    def own(self, inst):
        return self.sent.get(inst, b"")

    @staticmethod
    def _blobkey(data):
        try:
            f = json.loads(data.decode("ascii"))
            return tuple(sorted((str(k), str(v)) for k, v in f.items()))
        except Exception:
            return None

    def _inherit(self, inst, data):
        src = self.blob_src.get(self._blobkey(data))
        if src is not None and src in self.sent:
            self.sent[inst] = self.sent[src]

    def _peek(self, inst):
        if inst in self.unpeeked:
            self.unpeeked.remove(inst)
            if inst not in self.objs:        # the driver dropped the object (short-lived parameter sets)
                return
            try:
                out = {"t": "val", "v": hx(self.objs[inst].outbound_message)}
            except Exception as e:
                out = {"t": "err", "v": exc_name(e)}
            del _entlog()[:]
            self._ev({"op": "peek", "inst": inst, "out": out})

    def _ev(self, ev):
        ev["ent"] = list(_entlog())
        del _entlog()[:]
        if getattr(_tls, "entfail", False):
            ev["entfail"] = 1
            _tls.entfail = False
        self.events.append(ev)
        return ev

    def _cls(self, cls):
        sp = load_repo()
        return {"A": sp.SPAKE2_A, "B": sp.SPAKE2_B, "S": sp.SPAKE2_Symmetric}[cls]

    NSHAPES = 5

    def _from_serialized(self, cls, data, P):
        """from_serialized(data, params=DefaultParams): keyword, positional, or left out when it is the default"""
        K = self._cls(cls)
        k = (zlib.crc32(self.name.encode()) + self.n) % 3
        if k == 1:
            return K.from_serialized(data, P)
        if k == 2 and P is getattr(load_repo().spake2, "DefaultParams", None):
            return K.from_serialized(data)
        return K.from_serialized(data, params=P)

    def _construct(self, K, cls, pw, idA, idB, P, ent, shape):
        """The documented signatures are SPAKE2_A/B(password, idA=b"", idB=b"", params=DefaultParams,
        entropy_f=os.urandom) and SPAKE2_Symmetric(password, idSymmetric=b"", params=.., entropy_f=..): every Python
        call shape that binds the same values describes the same session (the `new` event records the values, not
        the shape), so the drivers rotate through them."""
        shape %= self.NSHAPES
        ids = [idA] if cls == "S" else [idA, idB]
        names = ["idSymmetric"] if cls == "S" else ["idA", "idB"]
        if shape == 1:                                   # everything positional
            return K(pw, *(ids + [P, ent]))
        if shape == 2:                                   # identities positional, options by keyword
            return K(pw, *ids, entropy_f=ent, params=P)
        if shape == 3:                                   # defaults left out, the rest by keyword
            kw = {n: v for n, v in zip(names, ids) if v != b""}
            return K(pw, params=P, entropy_f=ent, **kw)
        if shape == 4:                                   # first identity positional, the rest by keyword; default params left out
            kw = dict(zip(names[1:], ids[1:]))
            if P is not getattr(load_repo().spake2, "DefaultParams", None):
                kw["params"] = P
            return K(pw, ids[0], entropy_f=ent, **kw)
        return K(pw, entropy_f=ent, params=P, **dict(zip(names, ids)))     # shape 0: everything by keyword

    def new(self, cls, ps, pw, idA=b"", idB=b"", entropy=None, shape=None):
        del _entlog()[:]
        self.n += 1
        inst = "i%d" % self.n
        P = self.uni.params[ps]
        K = self._cls(cls)
        ent = entropy if entropy is not None else (FalsyEntropy(b"") if self.n % 2 == 1 else Entropy(b""))
        o = self._construct(K, cls, pw, idA, idB, P, ent, (zlib.crc32(self.name.encode()) + self.n) if shape is None else shape)
        self.objs[inst] = o
        self._ev({"op": "new", "inst": inst, "cls": cls, "ps": ps, "pw": hx(pw),
                  "idA": hx(idA), "idB": hx(idB)})
        return inst

    def start(self, inst, script=None, fail_after=None):
        """fail_after = k: the entropy function serves k requests and raises on the next one (None: it never raises)"""
        del _entlog()[:]
        _tls.entfail = False
        o = self.objs[inst]
        if script is not None and isinstance(o.entropy_f, Entropy):
            o.entropy_f.script, o.entropy_f.pos, o.entropy_f.extra = script, 0, 0
        if isinstance(getattr(o, "entropy_f", None), Entropy):
            o.entropy_f.fail_after, o.entropy_f.served = fail_after, 0
        try:
            m = o.start()
            out = {"t": "msg", "v": hx(m)}
            self.sent[inst] = bytes(m[1:])
        except Exception as e:
            m, out = None, {"t": "err", "v": exc_name(e)}
        self._ev({"op": "start", "inst": inst, "out": out})
        return m

    def finish(self, inst, msg):
        del _entlog()[:]
        try:
            k = self.objs[inst].finish(msg)
            out = {"t": "key", "v": hx(k)}
        except Exception as e:
            k, out = None, {"t": "err", "v": exc_name(e)}
        self._ev({"op": "finish", "inst": inst, "arg": hx(msg), "out": out})
        self._peek(inst)
        return k

    def serialize(self, inst):
        del _entlog()[:]
        try:
            raw = self.objs[inst].serialize()
            fields = json.loads(raw.decode("ascii"))
            if not (isinstance(fields, dict) and all(isinstance(v, str) for v in fields.values())):
                out = {"t": "blob", "raw": hx(raw), "fields": {"_not_an_object_of_strings": ""}}
            else:
                out = {"t": "blob", "raw": hx(raw), "fields": fields}
                self.blob_src.setdefault(self._blobkey(raw), inst)
        except Exception as e:
            raw, out = None, {"t": "err", "v": exc_name(e)}
        self._ev({"op": "serialize", "inst": inst, "out": out})
        return raw

    def restore(self, cls, ps, data, fields=None):
        """data: the bytes handed to from_serialized; fields: the dictionary
        they encode (default: parsed from data)"""
        del _entlog()[:]
        if fields is None:
            fields = json.loads(data.decode("ascii"))
        self.n += 1
        inst = "i%d" % self.n
        try:
            o = self._from_serialized(cls, data, self.uni.params[ps])
            self.objs[inst] = o
            self._inherit(inst, data)
            if (zlib.crc32(self.name.encode()) + self.n) % 2:
                out = {"t": "inst"}
                self.unpeeked.append(inst)
            else:
                out = {"t": "inst", "outbound": hx(o.outbound_message)}
        except Exception as e:
            inst_ok, out = None, {"t": "err", "v": exc_name(e)}
        self._ev({"op": "restore", "inst": inst, "cls": cls, "ps": ps, "blob": fields, "out": out})
        return inst if out["t"] == "inst" else None

    def restore_raw(self, cls, ps, data):
        """from_serialized on arbitrary bytes (possibly not JSON, not an object of hex strings)"""
        del _entlog()[:]
        fields, malformed = {}, True
        try:
            f = json.loads(data.decode("ascii"))
            if isinstance(f, dict) and all(isinstance(k, str) and isinstance(v, str) for k, v in f.items()):
                fields, malformed = f, False
        except Exception:
            pass
        self.n += 1
        inst = "i%d" % self.n
        try:
            o = self._from_serialized(cls, data, self.uni.params[ps])
            self.objs[inst] = o
            self._inherit(inst, data)
            if (zlib.crc32(self.name.encode()) + self.n) % 2:
                out = {"t": "inst"}
                self.unpeeked.append(inst)
            else:
                out = {"t": "inst", "outbound": hx(getattr(o, "outbound_message", b""))}
        except Exception as e:
            out = {"t": "err", "v": exc_name(e)}
        ev = {"op": "restore", "inst": inst, "cls": cls, "ps": ps, "blob": fields, "out": out, "raw": hx(data[:200])}
        if malformed:
            ev["malformed"] = 1
        self._ev(ev)
        return inst if out["t"] == "inst" else None

    def consts(self, ps):
        del _entlog()[:]
        P = self.uni.params[ps]
        G = P.group
        order = G.order()
        vals = {"base": hx(G.Base.to_bytes()), "zero": hx(G.Zero.to_bytes()),
                "M": hx(P.M.to_bytes()), "N": hx(P.N.to_bytes()), "S": hx(P.S.to_bytes()),
                "order": hx(order.to_bytes(G.scalar_size_bytes, "big"))}
        self._ev({"op": "consts", "ps": ps, "vals": vals})

    def raw(self, ev):
        """append a pre-built event (pure-function events)"""
        del _entlog()[:]
        ev.setdefault("ent", [])
        self.events.append(ev)

    def to_json(self):
        for inst in list(self.unpeeked):
            self._peek(inst)
        return {"name": self.name, "events": self.events}


# --------------------------------------------------------------------------
# TLC
# --------------------------------------------------------------------------
def ensure_built():
    cls = os.path.join(VERIF, "build", "classes", "BigNat.class")
    src = os.path.join(VERIF, "spec", "java", "BigNat.java")
    if not os.path.exists(cls) or os.path.getmtime(cls) < os.path.getmtime(src):
        os.makedirs(os.path.dirname(cls), exist_ok=True)
        r = subprocess.run(["javac", "-d", os.path.dirname(cls), "-cp", TLA_JAR, src],
                           capture_output=True, text=True)
        if r.returncode != 0:
            raise MachineryError("javac failed: " + r.stderr)


def tlc_cmd(mode, workers, extra_java=()):
    # explicit heap bounds (the JVM default is 1/4 of RAM per process: 16 concurrent validators would overcommit);
    # java.io.tmpdir inside the scratch directory so that TLC's unpacked standard modules are removed with it
    heap = "-Xmx2g" if workers == 1 else "-Xmx10g"
    return (["java", "-Xss768m", heap, "-XX:+UseParallelGC", "-Djava.io.tmpdir=" + scratch()] + list(extra_java) +
            ["-cp", "%s/build/classes:%s:%s" % (VERIF, TLA_JAR, CM_JAR),
             "-DTLA-Library=%s/spec/%s:%s/spec" % (VERIF, mode, VERIF),
             "tlc2.TLC", "-noGenerateSpecTE", "-workers", str(workers)])


_md_counter = [0]


def run_tlc(mode, module, cfg, workers=None, env=None, extra=(), timeout=3600, coverage=False, java=()):
    """run TLC on spec/<module>.tla with spec/<cfg>; returns dict(out, rc, states, distinct, wall)"""
    ensure_built()
    _md_counter[0] += 1
    md = os.path.join(scratch(), "md%d_%d" % (os.getpid(), _md_counter[0]))
    cmd = tlc_cmd(mode, workers or NCPU, java) + ["-metadir", md, "-config", cfg]
    if coverage:
        cmd += ["-coverage", "1"]
    cmd += list(extra) + [module]
    e = dict(os.environ)
    if env:
        e.update(env)
    t0 = time.time()
    try:
        r = subprocess.run(cmd, cwd=os.path.join(VERIF, "spec"), capture_output=True, text=True,
                           env=e, timeout=timeout)
    except subprocess.TimeoutExpired:
        raise MachineryError("TLC timed out: %s %s" % (module, cfg))
    finally:
        shutil.rmtree(md, True)
    out = r.stdout + r.stderr
    res = {"out": out, "rc": r.returncode, "wall": time.time() - t0, "cmd": " ".join(cmd)}
    m = re.findall(r"(\d+) states generated, (\d+) distinct states found", out)
    if m:
        res["states"] = int(m[-1][1])
        res["transitions"] = int(m[-1][0])
    return res


def tlc_ok(res):
    return res["rc"] == 0 and "Model checking completed. No error has been found." in res["out"]


def validate_traces(traces, header, label="tr", shard_events=4000, max_procs=None):
    """Validate recorded traces against Spake2Trace.tla.  Returns (results,
    stats): results[i] is the RESULT record for traces[i] (errs == [] means
    every event was allowed by the specification)."""
    ensure_built()
    # events may carry a weight hint "w" (table events stand for many evaluations)
    gw = {}
    for gname, gd in header.get("groups", {}).items():
        gw[gname] = 40 if gd.get("kind") == "ed" and len(gd.get("Q", "")) > 8 else \
            max(1, len(gd.get("p", "")) // 40) if gd.get("kind") == "int" else 1
    pw_ = {pn: gw.get(pd.get("grp"), 1) for pn, pd in header.get("params", {}).items()}

    def evw(e):
        if "w" in e:
            return e["w"]
        return pw_.get(e.get("ps"), gw.get(e.get("grp"), 1))
    weight = lambda t: sum(evw(e) for e in t["events"])
    total = sum(weight(t) for t in traces)
    per = max(200, min(shard_events, total // (max_procs or NCPU) + 1))
    shards, cur, n = [], [], 0
    for i, t in enumerate(traces):
        cur.append((i, t))
        n += weight(t)
        if n >= per:
            shards.append(cur)
            cur, n = [], 0
    if cur:
        shards.append(cur)
    results = [None] * len(traces)
    stats = {"states": 0, "transitions": 0, "shards": len(shards), "wall": 0.0}
    lock = threading.Lock()
    sem = threading.Semaphore(max_procs or NCPU)
    errors = []

    def work(k, shard):
        with sem:
            path = os.path.join(scratch(), "%s_%d_%d.json" % (label, os.getpid(), k))
            doc = dict(header)
            doc["traces"] = [t for _, t in shard]
            with open(path, "w") as f:
                json.dump(doc, f)
            try:
                res = run_tlc("big", "Spake2Trace.tla", "Spake2Trace.cfg", workers=1,
                              env={"TRACE_FILE": path})
            except MachineryError as e:
                errors.append(str(e))
                return
            finally:
                os.unlink(path)
            got = {}
            for line in res["out"].splitlines():
                mm = re.match(r'^"RESULT (.*)"$', line.strip())
                if mm:
                    rec = json.loads(json.loads('"' + mm.group(1) + '"'))
                    got[rec["tid"]] = rec
            if not tlc_ok(res) or len(got) != len(shard):
                errors.append("trace validation did not complete for shard %d:\n%s" % (k, res["out"][-3000:]))
                return
            with lock:
                for j, (i, t) in enumerate(shard):
                    rec = got[j + 1]
                    if rec["n"] != len(t["events"]):
                        errors.append("trace %s truncated" % t["name"])
                    results[i] = rec
                stats["states"] += res.get("states", 0)
                stats["transitions"] += res.get("transitions", 0)
                stats["wall"] = max(stats["wall"], res["wall"])

    ths = [threading.Thread(target=work, args=(k, s)) for k, s in enumerate(shards)]
    for t in ths:
        t.start()
    for t in ths:
        t.join()
    if errors:
        raise MachineryError("\n".join(errors[:3]))
    return results, stats


# --------------------------------------------------------------------------
# evidence and verdict
# --------------------------------------------------------------------------
def write_evidence(pid, level, coverage, assumptions, wall, violations, tier=None):
    ev = {"property_id": pid, "tier": tier or TIER, "seed": SEED, "level": level,
          "coverage": coverage, "assumptions": assumptions, "wall_s": round(wall, 2),
          "violations": violations}
    out = os.environ.get("VERIF_OUT", VERIF)          # seeded-change runs write elsewhere
    os.makedirs(os.path.join(out, "evidence"), exist_ok=True)
    with open(os.path.join(out, "evidence", pid + ".json"), "w") as f:
        json.dump(ev, f, indent=1, sort_keys=True)
    return ev


def save_replay(pid, payload):
    out = os.environ.get("VERIF_OUT", VERIF)
    os.makedirs(os.path.join(out, "replays"), exist_ok=True)
    blob = json.dumps(payload, sort_keys=True, indent=1)
    dig = hashlib.sha256(blob.encode()).hexdigest()[:12]
    path = os.path.join("replays", "%s-%s.json" % (pid, dig))
    with open(os.path.join(out, path), "w") as f:
        f.write(blob)
    return path
