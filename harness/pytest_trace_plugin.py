"""pytest plugin (lives in /verif, loaded with -p pytest_trace_plugin): records every SPAKE2 session the
repository's own tests create as a trace in the format of Spake2Trace.tla.  The tests' own assertions are
weak; the specification's verdicts are evaluated on every call they make.  No source file of /repo is touched:
the public methods are wrapped at import time of the plugin."""
import binascii, functools, json, os, threading

_hx = lambda b: binascii.hexlify(b).decode("ascii")
_state = {"traces": [], "cur": None, "groups": {}, "params": {}, "pnames": {}}
_tls = threading.local()


def _numhex(n):
    return "" if n == 0 else _hx(n.to_bytes((n.bit_length() + 7) // 8, "big"))


def _register_params(P):
    """name a parameter object; describe it to the specification by numbers and seeds"""
    import spake2
    from spake2 import groups, ed25519_group
    key = id(P)
    if key in _state["pnames"]:
        return _state["pnames"][key]
    G = P.group
    if G is ed25519_group.Ed25519Group:
        gname = "Ed25519"
        pub = json.load(open(os.path.join(os.path.dirname(os.path.dirname(os.path.abspath(__file__))), "spec", "published.json")))
        gd = {k: pub["groups"]["Ed25519"][k] for k in ("kind", "Q", "d", "L", "By")}
    elif isinstance(G, groups.IntegerGroup):
        gname = "int%d" % G.p.bit_length() + "_%x" % (G.p % 0xffff)
        gd = {"kind": "int", "p": _numhex(G.p), "q": _numhex(G.q), "g": _numhex(G.Base._e)}
    else:
        return None
    _state["groups"][gname] = gd
    name = "ps%d" % len(_state["pnames"])
    _state["pnames"][key] = name
    _state["params"][name] = {"grp": gname, "M": _hx(P.M_str), "N": _hx(P.N_str), "S": _hx(P.S_str)}
    _state["keep"] = _state.get("keep", []) + [P]
    return name


class _Ent:
    def __init__(self, f):
        self.f = f

    def __call__(self, n):
        got = self.f(n)
        log = getattr(_tls, "ent", None)
        if log is not None:
            log.append({"req": n, "got": _hx(got)})
        return got


def _ev(ev):
    cur = _state["cur"]
    if cur is None:
        return
    ev["ent"] = list(getattr(_tls, "ent", []) or [])
    _tls.ent = []
    cur["events"].append(ev)


def _inst(o, create=False):
    cur = _state["cur"]
    if cur is None:
        return None
    m = cur["ids"]
    if id(o) not in m:
        if not create:
            return None
        m[id(o)] = "i%d" % (len(m) + 1)
        cur["keep"].append(o)
    return m[id(o)]


def _outcome(kind, f):
    try:
        v = f()
        return v, {"t": kind, "v": _hx(v)}
    except Exception as e:          # noqa
        return e, {"t": "err", "v": type(e).__name__}


def install():
    import spake2.spake2 as S
    cls_of = {S.SPAKE2_A: "A", S.SPAKE2_B: "B", S.SPAKE2_Symmetric: "S"}

    def wrap_init(klass):
        orig = klass.__init__

        @functools.wraps(orig)
        def init(self, *a, **kw):
            _tls.ent = []
            orig(self, *a, **kw)
            if getattr(_tls, "in_restore", False) or type(self) not in cls_of:
                return
            ps = _register_params(self.params)
            if ps is None or _state["cur"] is None:
                return
            self.entropy_f = _Ent(self.entropy_f)
            c = cls_of[type(self)]
            _ev({"op": "new", "inst": _inst(self, True), "cls": c, "ps": ps, "pw": _hx(self.pw),
                 "idA": _hx(self.idSymmetric if c == "S" else self.idA), "idB": _hx(b"" if c == "S" else self.idB)})
        klass.__init__ = init
    wrap_init(S._SPAKE2_Asymmetric)
    wrap_init(S.SPAKE2_Symmetric)

    def wrap(name, kind):
        orig = getattr(S._SPAKE2_Base, name)

        @functools.wraps(orig)
        def m(self, *a):
            i = _inst(self)
            if i is None:
                return orig(self, *a)
            _tls.ent = []
            v, out = _outcome(kind, lambda: orig(self, *a))
            ev = {"op": name, "inst": i, "out": out}
            if name == "finish":
                ev["arg"] = _hx(a[0])
            if name == "serialize" and out["t"] == "blob":
                out.clear()
                out.update({"t": "blob", "raw": _hx(v), "fields": json.loads(v.decode("ascii"))})
            _ev(ev)
            if isinstance(v, Exception):
                raise v
            return v
        setattr(S._SPAKE2_Base, name, m)
    wrap("start", "msg")
    wrap("finish", "key")
    wrap("serialize", "blob")

    orig_fs = S._SPAKE2_Base.from_serialized.__func__

    def from_serialized(klass, data, params=S.DefaultParams):
        ps = _register_params(params)
        if _state["cur"] is None or ps is None or klass not in cls_of:
            return orig_fs(klass, data, params)
        _tls.ent = []
        _tls.in_restore = True
        try:
            try:
                o = orig_fs(klass, data, params)
                out = {"t": "inst", "outbound": _hx(o.outbound_message)}
            except Exception as e:          # noqa
                o, out = e, {"t": "err", "v": type(e).__name__}
        finally:
            _tls.in_restore = False
        cur = _state["cur"]
        cur["n_restore"] = cur.get("n_restore", 0) + 1
        i = "r%d" % cur["n_restore"]
        if not isinstance(o, Exception):
            cur["ids"][id(o)] = i
            cur["keep"].append(o)
        try:
            fields = json.loads(data.decode("ascii"))
        except Exception:                   # noqa
            fields = {"_unparsable": ""}
        _ev({"op": "restore", "inst": i, "cls": cls_of[klass], "ps": ps, "blob": fields, "out": out})
        if isinstance(o, Exception):
            raise o
        return o
    S._SPAKE2_Base.from_serialized = classmethod(from_serialized)


def pytest_configure(config):
    install()


def pytest_runtest_setup(item):
    _state["cur"] = {"name": item.nodeid, "events": [], "ids": {}, "keep": []}
    _tls.ent = []


def pytest_runtest_teardown(item):
    cur = _state["cur"]
    _state["cur"] = None
    if cur and cur["events"]:
        _state["traces"].append({"name": cur["name"], "events": cur["events"]})


def pytest_sessionfinish(session):
    out = os.environ.get("VERIF_TRACE_OUT")
    if out:
        with open(out, "w") as f:
            json.dump({"groups": _state["groups"], "params": _state["params"], "traces": _state["traces"]}, f)
