"""Check framework: one Ctx per run of one property's check."""
import json, os, random, re, sys, time, traceback

from core import *  # noqa


class Ctx:
    def __init__(self, pid, tier, level="model_checking"):
        self.pid, self.tier, self.level = pid, tier, level
        self.seed = SEED
        self.rng = random.Random((SEED << 8) ^ int(pid[1:]))
        self.t0 = time.time()
        self.cov = {"states": 0, "transitions": 0, "traces_validated_against_impl": 0,
                    "events_validated": 0, "samples": [], "models": [], "exhaustive": False}
        self.assumptions = []
        self.violations = []     # (what, replay path)
        self.known_lines = []
        self.known = load_known()

    # ---- design-level model checking (native instance) -------------------
    def mc(self, module, cfg_text, label=None, mode="native", workers=None, timeout=3000,
           expect_violation=None, coverage=False, simulate=None, extra=()):
        """Run TLC on a toy model.  Returns the result dict.  An invariant
        violation of the SPECIFICATION is a design-level counterexample: unless
        the caller expects it (expect_violation = invariant name), the
        machinery stops with exit 2 - it is never reported as a violation of
        the code without a reproduction against the code."""
        label = label or module
        cfg = os.path.join(scratch(), "%s_%d.cfg" % (label.replace("/", "_"), len(self.cov["models"])))
        with open(cfg, "w") as f:
            f.write(cfg_text)
        keep = os.environ.get("VERIF_KEEP_CFG")       # export the generated configuration files (spec/cfg/)
        if keep:
            os.makedirs(keep, exist_ok=True)
            name = re.sub(r"[^A-Za-z0-9_.-]+", "_", label)[:110]
            with open(os.path.join(keep, "%s__%s.cfg" % (self.pid, name)), "w") as f:
                f.write("\\* %s   (module %s, instance %s; run: harness/tlc.sh %s -config <this file> %s.tla)\n" % (label, module, mode, mode, module)
                        + cfg_text)
        extra = list(extra)
        if simulate:
            extra += ["-simulate", simulate]
        # the time limits only guard against a runaway model; on a machine shared with other jobs a model that
        # normally takes minutes must not be declared failed (thorough models run for up to an hour on a quiet machine)
        timeout = timeout * (5 if self.tier == "thorough" else 2)
        res = run_tlc(mode, module + ".tla", cfg, workers=workers, timeout=timeout,
                      coverage=coverage, extra=extra)
        os.unlink(cfg)
        out = res["out"]
        viol = re.findall(r"Invariant (\S+) is violated", out) + \
            re.findall(r"Action property (\S+) is violated", out) + \
            re.findall(r"Temporal properties were violated", out)
        acts = {}
        for m in re.finditer(r"^<(\w+) line \d+, col \d+ to line \d+, col \d+ of module (\w+)>: (\d+):(\d+)", out, re.M):
            acts[m.group(1)] = acts.get(m.group(1), 0) + int(m.group(4))
        if simulate:
            sm = re.findall(r"Progress: (\d+) states checked, (\d+) traces generated", out)
            if sm:
                res["states"] = res["transitions"] = int(sm[-1][0])
                res["sim_traces"] = int(sm[-1][1])
        entry = {"model": label, "states": res.get("states", 0), "transitions": res.get("transitions", 0),
                 "wall_s": round(res["wall"], 1), "actions_taken": acts}
        res["actions"] = acts
        res["violated"] = viol
        log("mc %s: %d states %.1fs" % (label, res.get("states", 0), res["wall"]))
        if viol:
            if expect_violation and set(viol) <= set([expect_violation] if isinstance(expect_violation, str) else expect_violation):
                entry["expected_counterexample"] = sorted(set(viol))
                self.cov["models"].append(entry)
                return res
            raise MachineryError("design-level counterexample in %s: %s\n%s" % (label, viol, strip_cov(out)[-6000:]))
        if simulate and res["rc"] == 0 and "rror" not in strip_cov(out).replace("No error", ""):
            entry["simulated_behaviours"] = res.get("sim_traces", 0)
        elif not tlc_ok(res):
            raise MachineryError("TLC failed on %s:\n%s" % (label, strip_cov(out)[-6000:]))
        if expect_violation:
            entry["expected_counterexample"] = []
        self.cov["states"] += res.get("states", 0)
        self.cov["transitions"] += res.get("transitions", 0)
        self.cov["design_level_states"] = self.cov.get("design_level_states", 0) + res.get("states", 0)
        self.cov["models"].append(entry)
        return res

    def witness(self, module, cfg_text, invs, label=None, timeout=900):
        """vacuity guard: the model must reach a state violating each negated
        witness formula in `invs` (i.e. the interesting case really occurs).
        cfg_text lists these formulas as INVARIANTs; one TLC run per formula
        (each stops at its first counterexample)."""
        for inv in invs:
            text = "\n".join(l for l in cfg_text.splitlines()
                             if not l.startswith("INVARIANT ") or l.strip() == "INVARIANT " + inv) + "\n"
            res = self.mc(module, text, label=(label or module) + " witness " + inv, expect_violation=inv,
                          coverage=False, timeout=timeout)
            if inv not in res["violated"]:
                raise MachineryError("vacuity: %s never occurs in %s" % (inv, label or module))

    def require_actions(self, res, names):
        """vacuity guard: every named action was taken at least once"""
        missing = [n for n in names if res["actions"].get(n, 0) == 0]
        if missing:
            raise MachineryError("vacuous model run: actions never taken: %s" % missing)

    # ---- conformance -------------------------------------------------------
    def validate(self, traces, uni, what="trace", sample=2, classify=None):
        """validate traces of the real code; every rejected trace is a violation
        (or a known finding, decided by classify(trace, result) -> finding id)"""
        if not traces:
            return []
        t1 = time.time()
        results, stats = validate_traces(traces, uni.header(), label=self.pid)
        log("validated %d traces / %d events in %.1fs (%d shards)" % (len(traces), sum(len(t["events"]) for t in traces), time.time() - t1, stats["shards"]))
        self.cov["traces_validated_against_impl"] += len(traces)
        self.cov["events_validated"] += sum(len(t["events"]) for t in traces)
        self.cov["states"] += stats["states"]
        self.cov["transitions"] += stats["transitions"]
        self.cov["trace_validation_states"] = self.cov.get("trace_validation_states", 0) + stats["states"]
        for t in traces[:sample]:
            if len(self.cov["samples"]) < 6:
                self.cov["samples"].append(compact_trace(t))
        bad = []
        for t, r in zip(traces, results):
            if r["errs"]:
                fid = classify(t, r) if classify else None
                if fid and fid in self.known:
                    self.note_known(fid)
                    continue
                bad.append((t, r))
        for t, r in bad[:20]:
            path = save_replay(self.pid, {"property": self.pid, "kind": "trace", "header": uni.header(),
                                          "trace": t, "errors": r["errs"], "what": what})
            self.violations.append(("%s %s: event %d (%s): %s" % (what, t["name"], r["errs"][0]["l"],
                                    r["errs"][0]["op"], r["errs"][0]["why"]), path))
        if len(bad) > 20:
            self.violations.append(("... and %d more rejected traces" % (len(bad) - 20), self.violations[-1][1]))
        return results

    def violation(self, what, payload):
        path = save_replay(self.pid, dict(payload, property=self.pid, what=what))
        self.violations.append((what, path))

    def note_known(self, fid):
        line = "KNOWN-FINDING: property=%s %s" % (self.known[fid]["property"], self.known[fid]["what"])
        if line not in self.known_lines:
            self.known_lines.append(line)

    def sample(self, x):
        if len(self.cov["samples"]) < 8:
            self.cov["samples"].append(x)

    # ---- finish ------------------------------------------------------------
    def done(self, rule=None, exhaustive=None, explanation=None):
        cov = self.cov
        if exhaustive is not None:
            cov["exhaustive"] = exhaustive
        if rule:
            cov["rule"] = rule
        if explanation:
            cov["explanation"] = explanation
        if not cov["samples"]:
            cov["samples"] = ["(no sample recorded)"]
        if self.level == "model_checking" and (cov["states"] < 1 or cov["transitions"] < 1):
            raise MachineryError("no states explored")
        cov["known_findings_reported"] = list(self.known_lines)
        cov.setdefault("explanation", "states/transitions = TLC states of the design-level toy models (design_level_states, per model in "
                       "'models') plus the states of the trace specification consumed while validating recorded executions of the "
                       "real code (trace_validation_states: one per validated event plus bookkeeping); events_validated counts "
                       "public calls / table events of the implementation checked against the specification")
        write_evidence(self.pid, self.level, cov, self.assumptions, time.time() - self.t0,
                       len(self.violations), tier=self.tier)
        for line in self.known_lines:
            print(line)
        for what, path in self.violations:
            print("VIOLATION property=%s replay=%s" % (self.pid, path))
            print("  " + what)
        return 1 if self.violations else 0


def log(msg):
    if os.environ.get("VERIF_VERBOSE", "1") != "0":
        print("[%s] %s" % (time.strftime("%H:%M:%S"), msg), file=sys.stderr)


def strip_cov(out):
    """TLC output without the per-expression coverage listing"""
    return "\n".join(l for l in out.splitlines() if not re.match(r"^\s*\|*line \d+, col", l))


def compact_trace(t, maxlen=14):
    def short(v):
        if isinstance(v, str) and len(v) > 24:
            return v[:20] + "..(%d)" % (len(v) // 2)
        if isinstance(v, dict):
            return {k: short(x) for k, x in v.items()}
        if isinstance(v, list):
            return [short(x) for x in v[:4]]
        return v
    return {"name": t["name"], "events": [short(e) for e in t["events"][:maxlen]]}


def load_known():
    path = os.path.join(VERIF, "KNOWN_FINDINGS.jsonl")
    known = {}
    if os.path.exists(path):
        for line in open(path):
            line = line.strip()
            if not line or line.startswith("#") or line.startswith("fixed:"):
                continue
            rec = json.loads(line)
            known[rec["id"]] = rec
    return known


def cfg(spec="Spec", constants=None, invariants=(), properties=(), constraints=(), extra="", view=None):
    lines = ["SPECIFICATION %s" % spec, "CHECK_DEADLOCK FALSE"]
    if view:
        lines.append("VIEW %s" % view)
    if constants:
        lines.append("CONSTANTS")
        for k, v in constants.items():
            lines.append("  %s %s" % (k, v if v.startswith("<-") else "= " + v))
    for c in constraints:
        lines.append("CONSTRAINT %s" % c)
    for i in invariants:
        lines.append("INVARIANT %s" % i)
    for p in properties:
        lines.append("PROPERTY %s" % p)
    return "\n".join(lines) + "\n" + extra


_toy_uni = None


def toy_dlogs(name):
    """discrete logarithms (w.r.t. Base) of M, N, S of the default-seed
    parameter set of a toy group, found by enumeration with the real code"""
    global _toy_uni
    if _toy_uni is None:
        _toy_uni = Universe()
    P = _toy_uni.paramset("P" + name, grp=name)
    G = P.group
    table = {G.Base.scalarmult(k).to_bytes(): k for k in range(G.order())}
    try:
        return tuple(table[e.to_bytes()] for e in (P.M, P.N, P.S))
    except KeyError:
        raise MachineryError("M/N/S of %s are not multiples of Base" % name)


def toy_consts(name):
    """cfg constants describing a toy group and its default parameter set (Toy.tla)"""
    m, n, s = toy_dlogs(name)
    dl = {"PM": str(m), "PN": str(n), "PSS": str(s)}
    if name in TOY_INT:
        p, q, g = TOY_INT[name]
        return dict(dl, TKIND='"int"', TP=str(p), TQ=str(q), TG=str(g), TBY="0")
    Q, d, L, By = TOY_CURVES[name]
    return dict(dl, TKIND='"ed"', TP=str(Q), TQ=str(L), TG=str(d), TBY=str(By))


def toy_order(name):
    return TOY_INT[name][1] if name in TOY_INT else TOY_CURVES[name][2]


def main(argv):
    import argparse, importlib
    ap = argparse.ArgumentParser()
    ap.add_argument("pid")
    ap.add_argument("--tier", default=os.environ.get("VERIF_TIER") or "quick")
    ap.add_argument("--replay")
    a = ap.parse_args(argv)
    sys.path.insert(0, os.path.join(VERIF, "harness", "checks"))
    # watchdog: a library call that never returns (e.g. a sampler that never accepts) must not hang the check
    import signal

    class LibraryHang(BaseException):       # not an Exception: drivers record `except Exception` as a call's outcome
        pass

    # Two clocks.  (1) every `period` seconds the handler looks at the interrupted stack: if the OUTERMOST library
    # frame is the very activation that was running at the previous tick, one library call has been running for a
    # whole period (full-size operations take milliseconds) - it is reported as a violation ("did not return").
    # Harness code and waiting for TLC never trip it.  (2) an overall limit for the whole check (machinery failure).
    t_start = time.time()
    hang = {"last": None}
    libsrc = os.path.realpath(os.path.join(REPO, "src")) + os.sep
    period = int(os.environ.get("VERIF_HANG_S", "240"))

    def on_alarm(signum, frame):
        outer, f = None, frame
        while f is not None:
            fn = f.f_code.co_filename
            if "_toy_" in fn or os.path.realpath(fn).startswith(libsrc):
                outer = f
            f = f.f_back
        if outer is not None and outer is hang["last"]:
            raise LibraryHang("%s() (line %d of %s) did not return within %d s" %
                              (outer.f_code.co_name, outer.f_lineno, os.path.basename(outer.f_code.co_filename), period))
        hang["last"] = outer
        if time.time() - t_start > limit:
            raise MachineryError("check exceeded its overall time limit of %d s" % limit)
        signal.alarm(period)
    limit = int(os.environ.get("VERIF_WATCHDOG_S", "7200" if a.tier == "quick" else "80000"))
    try:
        signal.signal(signal.SIGALRM, on_alarm)
        signal.alarm(period)
    except Exception:                       # noqa
        pass
    cover = os.environ.get("VERIF_COVER")          # one-off analysis: which library lines do the drivers execute?
    if cover:
        import threading
        src = os.path.realpath(os.path.join(REPO, "src", "spake2")) + os.sep
        seen = set()

        def tracer(frame, event, arg):
            fn = frame.f_code.co_filename
            if not fn.startswith(src) and "_toy_" not in fn:
                return None
            if event == "line":
                seen.add((os.path.basename(fn), frame.f_lineno))
            return tracer
        sys.settrace(tracer)
        threading.settrace(tracer)
        import atexit
        atexit.register(lambda: json.dump(sorted(seen), open(os.path.join(cover, a.pid + ".json"), "w")))
    try:
        ensure_built()
        mod = importlib.import_module(a.pid.lower())
        if a.replay:
            import replay
            return replay.run(a.pid, a.replay)
        ctx = Ctx(a.pid, a.tier, level=getattr(mod, "LEVEL", "model_checking"))
        mod.run(ctx)
        return ctx.done(**getattr(mod, "DONE", {}))
    except MachineryError as e:
        print("MACHINERY-FAILURE %s: %s" % (a.pid, e), file=sys.stderr)
        return 2
    except (Exception, LibraryHang) as e:
        # An exception that escapes from the LIBRARY (innermost frame in $VERIF_REPO/src) while a driver makes a call
        # the specification considers valid is a behaviour the specification does not allow: report it as a violation
        # (on the unchanged tree no such exception occurs).  Anything raised by the harness itself is a machinery failure.
        tb = traceback.extract_tb(e.__traceback__)
        src = os.path.realpath(os.path.join(REPO, "src")) + os.sep
        if isinstance(e, LibraryHang) and len(tb) > 1:
            tb = tb[:-1]                    # the innermost frame is the signal handler; the one below it was interrupted
            while len(tb) > 1 and not ("_toy_" in tb[-1].filename or os.path.realpath(tb[-1].filename).startswith(src)):
                tb = tb[:-1]
        if tb and ("_toy_" in tb[-1].filename or os.path.realpath(tb[-1].filename).startswith(src)) and not isinstance(e, MachineryError):
            text = "".join(traceback.format_exception(type(e), e, e.__traceback__))
            path = save_replay(a.pid, {"property": a.pid, "kind": "uncaught-exception", "traceback": text})
            print("VIOLATION property=%s replay=%s" % (a.pid, path))
            print("  the library raised %s: %s in %s (line %d) on a call the specification allows" %
                  (type(e).__name__, e, tb[-1].name, tb[-1].lineno))
            try:
                write_evidence(a.pid, "model_checking", {"evaluations": 1, "distinct_nontrivial": 2, "samples": [text[-800:]],
                                                          "rule": "run aborted by an exception escaping from the library"},
                               [], 0.0, 1, tier=a.tier)
            except Exception:               # noqa
                pass
            return 1
        traceback.print_exc()
        print("MACHINERY-FAILURE %s: unexpected exception" % a.pid, file=sys.stderr)
        return 2
