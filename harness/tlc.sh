#!/bin/sh
# usage: tlc.sh <native|big> <args to tlc2.TLC...>
mode=$1; shift
V=/verif
exec java -Xss768m -XX:+UseParallelGC ${TLC_JAVA_OPTS:-} -cp $V/build/classes:/opt/veriftools/tla/tla2tools.jar:/opt/veriftools/tla/CommunityModules-deps.jar \
  -DTLA-Library=$V/spec/$mode:$V/spec tlc2.TLC "$@"
