"""Negative controls: property-preserving changes in /verif/controls/<name>/patch.diff must NOT be reported.
usage: negtest.py [--checks C01,..|all] [--jobs N] [name ...]   (default: all 18 quick checks)"""
import json, os, shutil, subprocess, sys, tempfile, time

V = os.path.dirname(os.path.dirname(os.path.abspath(__file__)))
PY = "/venv/bin/python"
ALL = ["C%02d" % n for n in range(1, 19)]


def sh(cmd, cwd=None, env=None, timeout=7200):
    e = dict(os.environ)
    e.update(env or {})
    r = subprocess.run(cmd, cwd=cwd, env=e, capture_output=True, text=True, timeout=timeout)
    return r.returncode, r.stdout + r.stderr


def run_one(name, checks):
    d = os.path.join(V, "controls", name)
    tmp = tempfile.mkdtemp(prefix="negrun-")
    res = {"name": name, "at": time.strftime("%Y-%m-%d %H:%M:%S"), "checks": {}}
    try:
        copy = os.path.join(tmp, "repo")
        shutil.copytree("/repo", copy, ignore=shutil.ignore_patterns(".git", "__pycache__", ".benchmarks"))
        rc, out = sh(["patch", "-p1", "-i", os.path.join(d, "patch.diff")], cwd=copy)
        if rc != 0:
            res["error"] = "patch does not apply: " + out[-300:]
            return res
        env = {"PYTHONPATH": os.path.join(copy, "src"), "PYTHONDONTWRITEBYTECODE": "1"}
        rct, outt = sh([PY, "-m", "pytest", "-q", "-p", "no:cacheprovider", "src/spake2"], cwd=copy, env=env)
        res["repo_tests_with_patch"] = outt.strip().splitlines()[-1] if outt.strip() else "?"
        for c in checks:
            t0 = time.time()
            rcc, outc = sh([os.path.join(V, "check"), c, "--tier", "quick"], cwd=V,
                           env={"VERIF_REPO": copy, "VERIF_OUT": os.path.join(tmp, "out"), "VERIF_VERBOSE": "0"})
            lines = outc.splitlines()
            first = ""
            for i, l in enumerate(lines):
                if l.startswith("VIOLATION") and i + 1 < len(lines):
                    first = lines[i + 1].strip()[:300]
                    break
            res["checks"][c] = {"rc": rcc, "first": first, "machinery": [l[:300] for l in lines if "MACHINERY" in l][:1],
                                "wall_s": round(time.time() - t0, 1)}
    finally:
        shutil.rmtree(tmp, True)
    # a partial re-run keeps the record of the checks it did not run
    rp = os.path.join(d, "result.json")
    if os.path.exists(rp) and len(checks) < len(ALL) and "error" not in res:
        try:
            old = json.load(open(rp))
            head = subprocess.run(["git", "rev-parse", "--short", "HEAD"], cwd=V, capture_output=True, text=True).stdout.strip()
            for c, v in res["checks"].items():
                v["rerun_at_commit"] = head
            merged = dict(old.get("checks", {}))
            merged.update(res["checks"])
            res = dict(old, checks=merged, repo_tests_with_patch=res.get("repo_tests_with_patch", old.get("repo_tests_with_patch")))
        except Exception:
            pass
    json.dump(res, open(rp, "w"), indent=1)
    return res


if __name__ == "__main__":
    from concurrent.futures import ThreadPoolExecutor
    args = sys.argv[1:]
    checks, jobs = ALL, 1
    while args and args[0] in ("--checks", "--jobs"):
        if args[0] == "--checks":
            checks = ALL if args[1] == "all" else args[1].split(",")
        else:
            jobs = int(args[1])
        args = args[2:]
    names = [n for n in (args or sorted(os.listdir(os.path.join(V, "controls"))))
             if os.path.exists(os.path.join(V, "controls", n, "patch.diff"))]
    with ThreadPoolExecutor(jobs) as ex:
        for r in ex.map(lambda n: run_one(n, checks), names):
            alarms = {c: v for c, v in r["checks"].items() if v["rc"] != 0}
            print("%-10s tests: %s alarms: %s %s" % (r["name"], r.get("repo_tests_with_patch"), sorted(alarms) or "none", r.get("error", "")), flush=True)
            for c, v in alarms.items():
                print("    %s rc=%d %s %s" % (c, v["rc"], v["first"], v["machinery"]), flush=True)
