"""One-off generator of harness/zoo.json: custom (p, q, g) of unusual but valid shapes for the "any valid prime-order
group" clauses.  Input generation only - nothing here is trusted by the verdicts: the specification re-checks every
group (Primes!IntParamsSound) when it is used.  Deterministic (seeded)."""
import json, random, sys

SMALL = [p for p in range(3, 2000) if all(p % d for d in range(2, int(p ** .5) + 1))]


def is_prime(n):
    if n < 2:
        return False
    for a in [2] + SMALL[:60]:
        if n % a == 0:
            return n == a
    d, r = n - 1, 0
    while d % 2 == 0:
        d //= 2
        r += 1
    for a in (2, 3, 5, 7, 11, 13, 17, 19, 23, 29, 31, 37):
        x = pow(a, d, n)
        if x in (1, n - 1):
            continue
        for _ in range(r - 1):
            x = x * x % n
            if x == n - 1:
                break
        else:
            return False
    return True


def safe_prime(bits, mod8, rng):
    while True:
        q = rng.getrandbits(bits - 1) | (1 << (bits - 2)) | 1
        p = 2 * q + 1
        if p % 8 != mod8 or p.bit_length() != bits:
            continue
        if any(q % s == 0 or p % s == 0 for s in SMALL):
            continue
        if pow(2, q - 1, q) == 1 and is_prime(q) and is_prime(p):
            return p, q


def schnorr(qbits, pbits, rng, q=None):
    while True:
        qq = q or (rng.getrandbits(qbits) | (1 << (qbits - 1)) | 1)
        if not is_prime(qq):
            continue
        for _ in range(4000):
            k = rng.getrandbits(pbits - qq.bit_length()) | (1 << (pbits - qq.bit_length() - 1))
            k += k % 2
            p = k * qq + 1
            if p.bit_length() == pbits and is_prime(p):
                return p, qq, k


def main():
    rng = random.Random(20260929)
    zoo = {}
    for name, bits, mod8 in (("s72a", 72, 3), ("s72b", 72, 7), ("s136", 136, 3), ("s264", 264, 3), ("s600", 600, 7)):
        p, q = safe_prime(bits, mod8, rng)
        g = 4 if mod8 == 3 else 2          # 2 is a quadratic residue iff p = +-1 mod 8; 4 always is
        assert pow(g, q, p) == 1 and g != 1
        zoo[name] = {"p": hex(p), "q": hex(q), "g": hex(g), "shape": "safe prime p = 2q+1, p = %d mod 8, %d bits" % (mod8, bits)}
    for name, qb, pb in (("m521", 272, 521), ("m64", 40, 64), ("m65", 40, 65)):
        p, q, k = schnorr(qb, pb, rng)
        h = 3
        while pow(h, k, p) == 1:
            h += 1
        zoo[name] = {"p": hex(p), "q": hex(q), "g": hex(pow(h, k, p)), "shape": "q of %d bits, p of %d bits, large generator" % (qb, pb)}
    p, q, k = schnorr(8, 80, rng, q=251)
    h = 2
    while pow(h, k, p) == 1:
        h += 1
    zoo["q251"] = {"p": hex(p), "q": hex(q), "g": hex(pow(h, k, p)), "shape": "one-byte q = 251 in an 80-bit field"}
    # q exactly filling its bytes: the largest 64-bit prime q = 2^64 - 59, in a 160-bit field
    p, q, k = schnorr(64, 160, rng, q=2 ** 64 - 59)
    h = 2
    while pow(h, k, p) == 1:
        h += 1
    zoo["q64full"] = {"p": hex(p), "q": hex(q), "g": hex(pow(h, k, p)), "shape": "q = 2^64 - 59 (fills 8 bytes), 160-bit field"}
    json.dump(zoo, open(sys.argv[1], "w"), indent=1, sort_keys=True)
    for n, z in sorted(zoo.items()):
        print(n, z["shape"], len(z["p"]) * 4 - 8)


main()
