"""Randomised API driver (code -> spec): arbitrary call sequences over several sessions - constructors, start with
arbitrary entropy, finish with honest / tampered / foreign / random messages, serialize, restore under the right
or a wrong class / parameter set, restore of mutated or malformed state - each trace validated by Spake2Trace.
Everything is drawn from the generator passed in (seeded by VERIF_SEED)."""
import json

from core import *  # noqa
from drivers import Run

PWS = [b"", b"pw", b"password", b"Password", b"pw ", b"\x00", b"\x00\x01\xfe\xff", b"p" * 70, "pä".encode(), b"cafe\xcc\x81"]
IDS = [b"", b"a", b"A", b"alice", b"bob", b"a ", b"\x00", b"\xff\x00", b"i" * 70]
PEER = {"A": b"B", "B": b"A", "S": b"S"}


def rand_bytes(rng, n):
    return bytes(rng.randrange(256) for _ in range(n))


def mutate_blob(rng, blob):
    """a variation of serialized state: most of them malformed or inconsistent"""
    try:
        f = json.loads(blob.decode("ascii"))
    except Exception:
        return blob
    k = rng.randrange(9)
    keys = sorted(f)
    if k == 0:
        f.pop(rng.choice(keys))
    elif k == 1:
        key = rng.choice(keys)
        f[key] = f[key][:-1]                       # odd-length hex
    elif k == 2:
        f[rng.choice(["password", "idA", "idS", "xy_scalar"])] = "zz"
    elif k == 3:
        f["xy_scalar"] = f["xy_scalar"] + "00"     # wrong scalar width
    elif k == 4:
        f["xy_scalar"] = "ff" * (len(f["xy_scalar"]) // 2) if rng.random() < 0.5 else f["xy_scalar"][2:]
    elif k == 5:
        f["side"] = rng.choice(["A", "B", "S", "C", "", "AB"])
    elif k == 6:
        h = f["hashed_params"]
        f["hashed_params"] = h[:-1] + ("0" if h[-1] != "0" else "1")
    elif k == 7:
        return blob[:rng.randrange(len(blob))]     # truncated JSON
    else:
        return rng.choice([b"", b"null", b"[]", b"{}", b"\xff\xfe", b'{"side": 1}', b'"A"', blob + b"}"])
    return json.dumps(f).encode("ascii")


def fuzz_trace(rng, uni, mp, sets, name, steps=12):
    """sets: list of (psname, gname)"""
    r = Run(name, uni)
    insts, msgs, blobs = [], [], []          # (var, cls, ps, g), (bytes, cls, ps), (bytes, cls, ps)
    pws = [rng.choice(PWS) for _ in range(2)]  # few passwords and identities per trace, so that sessions often match
    ids = [rng.choice(IDS) for _ in range(2)]
    n = 0
    for _ in range(steps):
        op = rng.choice(["new", "new", "start", "start", "finish", "finish", "finish", "serialize", "restore", "restore"])
        if op == "new" or not insts:
            ps, g = rng.choice(sets)
            cls = rng.choice("ABS")
            n += 1
            var = "v%d" % n
            ida, idb = rng.choice(IDS), rng.choice(IDS)
            ida, idb = rng.choice(ids), rng.choice(ids)
            r.new(var, cls, ps, rng.choice(pws), ida, idb if cls != "S" else b"")
            insts.append((var, cls, ps, g))
            continue
        var, cls, ps, g = rng.choice(insts)
        G = uni.group(g)
        q = G.order()
        if op == "start":
            x = rng.choice([0, 1, q - 1, rng.randrange(q)])
            stream = mp.stream_for(g, x, redraws=rng.randrange(3), k=rng.randrange(3)) if rng.random() < 0.8 else \
                rand_bytes(rng, 64 + 3 * G.scalar_size_bytes)
            # one start() in eight meets an entropy function that raises (at the first request, or - integer groups
            # with forced redraws - at a later one)
            m = r.start(var, stream, fail_after=rng.randrange(2) if rng.random() < 0.125 else None)
            if m is not None:
                msgs.append((m, cls, ps))
        elif op == "finish":
            k = rng.randrange(8)
            own = r.t.own(r.inst[var])
            cand = [m for m, c, p in msgs]
            good = [m for m, c, p in msgs if p == ps and m[:1] == PEER[cls] and m[1:] != own]
            if k <= 2 and good:
                m = rng.choice(good)                                           # a compatible peer's message as sent
            elif k <= 2 and cand:
                m = rng.choice(cand)                                           # some instance's message as sent
            elif k == 3 and cand:
                m = rng.choice(cand)
                m = rng.choice([m + b"\x00", m[:-1], m[:1] + m[1:] * 2, m[:1] + bytes([m[1] ^ 1]) + m[2:], PEER[cls] + m[1:]])
            elif k == 4:
                m = PEER[cls] + own                                            # reflection
            elif k == 5:
                m = PEER[cls] + rng.choice([G.Zero.to_bytes(), G.Base.to_bytes(), G.Base.scalarmult(rng.randrange(q)).to_bytes()])
            elif k == 6:
                m = rand_bytes(rng, rng.choice([0, 1, 2, G.element_size_bytes, G.element_size_bytes + 1]))
            else:
                m = bytes([rng.randrange(256)]) + G.Base.scalarmult(rng.randrange(1, q)).to_bytes()
            r.finish(var, m)
        elif op == "serialize":
            b = r.serialize(var)
            if b is not None:
                blobs.append((b, cls, ps))
        elif op == "restore" and blobs:
            b, bcls, bps = rng.choice(blobs)
            k = rng.randrange(6)
            rcls = bcls if k < 3 else rng.choice("ABS")
            rps = bps if k < 4 else rng.choice(sets)[0]
            data = b if k != 2 else mutate_blob(rng, b)
            n += 1
            i = r.t.restore_raw(rcls, rps, data)
            if i is not None:
                r.inst["v%d" % n] = i
                gg = uni.pdesc[rps]["grp"]
                insts.append(("v%d" % n, rcls, rps, gg))
    return r.json()


def fuzz_traces(rng, uni, mp, sets, count, tag, steps=12):
    return [fuzz_trace(rng, uni, mp, sets, "%s/%d" % (tag, k), steps) for k in range(count)]


def lineage_trace(rng, uni, mp, ps, g, cls, name, steps=14):
    """one session and all its revived copies: random calls on ANY member of the family - serialize() before and
    after finish(), the same blob restored twice, blobs produced by restored copies, the original finishing after a
    copy (or the other way round), start() on copies, repeated finish() - with honest, reflected and bad messages"""
    r = Run(name, uni)
    G = uni.group(g)
    q = G.order()
    r.new("v0", cls, ps, rng.choice(PWS), rng.choice(IDS), rng.choice(IDS) if cls != "S" else b"")
    if rng.random() < 0.1:          # a first start() whose entropy function raises
        r.start("v0", mp.stream_for(g, 1), fail_after=0)
    if rng.random() < 0.9:
        r.start("v0", mp.stream_for(g, rng.choice([0, 1, q - 1, rng.randrange(q)]), redraws=rng.randrange(2)))
    fam, blobs, n = ["v0"], [], 0
    for _ in range(steps):
        var = rng.choice(fam)
        op = rng.choice(["serialize", "serialize", "restore", "restore", "restore", "finish", "finish", "start"])
        if op == "serialize":
            b = r.serialize(var)
            if b is not None:
                blobs.append(b)
        elif op == "restore" and blobs:
            n += 1
            b = rng.choice(blobs)
            if rng.random() < 0.4:                 # the same object in another concrete JSON syntax (key order, whitespace)
                f = json.loads(b.decode("ascii"))
                keys = list(f)
                rng.shuffle(keys)
                b = (json.dumps({k: f[k] for k in keys}, indent=rng.choice([None, 0, 2]), separators=rng.choice([None, (",", ":"), (" , ", " : ")]))
                     + rng.choice(["", "\n", "  "])).encode("ascii")
                i = r.t.restore_raw(cls, ps, b)
                if i is not None:
                    r.inst["v%d" % n] = i
                    fam.append("v%d" % n)
            elif r.restore("v%d" % n, cls, ps, b) is not None:
                fam.append("v%d" % n)
        elif op == "start":
            r.start(var, mp.stream_for(g, rng.randrange(q)), fail_after=0 if rng.random() < 0.2 else None)
        elif op == "finish":
            own = r.t.own(r.inst[var])
            k = rng.randrange(6)
            body = own if k == 0 else G.Zero.to_bytes() if k == 1 else G.Base.scalarmult(rng.randrange(1, q)).to_bytes()
            if k == 2:
                body += b"\x00"
            side = PEER[cls] if k != 3 else cls.encode()
            r.finish(var, side + body)
    for var in fam[-2:]:
        r.serialize(var)
    return r.json()
