"""Mechanical mutation testing of the checks (complements the hand-written seeded changes).

For each AST mutation of the library sources (comparison / arithmetic operator replacement, integer and bytes
constants, negated conditions, removed raise / assignment statements, swapped call arguments): build a scratch copy
of /repo with the mutant, discard it if the library no longer imports or the repository's own 43 tests fail
("killed by the suite"), otherwise run the quick checks mapped to the mutated file until one reports a VIOLATION.
Mutants that no check reports are listed for inspection (equivalent mutants, or gaps).

usage: mutate.py --out results.jsonl [--sample N] [--seed S] [--jobs J] [--files a.py,b.py]"""
import argparse, ast, copy, json, os, random, shutil, subprocess, sys, tempfile, time
from concurrent.futures import ThreadPoolExecutor

V = os.path.dirname(os.path.dirname(os.path.abspath(__file__)))
PY = "/venv/bin/python"
FILES = ["spake2.py", "groups.py", "ed25519_basic.py", "util.py", "params.py", "ed25519_group.py"]
CHECKS = {
    "spake2.py": ["C03", "C07", "C08", "C06", "C09", "C10", "C01", "C02", "C16", "C17", "C11"],
    "groups.py": ["C13", "C05", "C14", "C15", "C03", "C18", "C11", "C01"],
    "ed25519_basic.py": ["C13", "C12", "C05", "C14", "C03", "C15", "C11", "C01"],
    "util.py": ["C15", "C11", "C03", "C14", "C05"],
    "params.py": ["C03", "C18", "C14"],
    "ed25519_group.py": ["C13", "C14", "C03", "C11", "C15"],
}
CMP = {ast.Lt: ast.LtE, ast.LtE: ast.Lt, ast.Gt: ast.GtE, ast.GtE: ast.Gt, ast.Eq: ast.NotEq, ast.NotEq: ast.Eq,
       ast.Is: ast.IsNot, ast.IsNot: ast.Is, ast.In: ast.NotIn, ast.NotIn: ast.In}
BIN = {ast.Add: ast.Sub, ast.Sub: ast.Add, ast.Mult: ast.Add, ast.FloorDiv: ast.Mult, ast.LShift: ast.RShift,
       ast.RShift: ast.LShift, ast.BitAnd: ast.BitOr, ast.BitOr: ast.BitAnd}


def sites(tree):
    """enumerate (kind, node index, variant) mutation sites"""
    out = []
    nodes = list(ast.walk(tree))
    for i, n in enumerate(nodes):
        if isinstance(n, ast.Compare) and len(n.ops) == 1 and type(n.ops[0]) in CMP:
            out.append(("cmp", i, 0))
        elif isinstance(n, ast.BinOp) and type(n.op) in BIN:
            out.append(("bin", i, 0))
        elif isinstance(n, ast.BinOp) and isinstance(n.op, ast.Mod) and not isinstance(n.left, ast.Constant):
            out.append(("dropmod", i, 0))
        elif isinstance(n, ast.Constant) and isinstance(n.value, bool):
            out.append(("bool", i, 0))
        elif isinstance(n, ast.Constant) and isinstance(n.value, int) and not isinstance(n.value, bool) and abs(n.value) < 2 ** 70:
            out.append(("int", i, 1))
            out.append(("int", i, -1))
        elif isinstance(n, ast.Constant) and isinstance(n.value, bytes) and n.value:
            out.append(("bytes", i, 0))
        elif isinstance(n, (ast.If, ast.While)) :
            out.append(("negate", i, 0))
        elif isinstance(n, ast.Raise):
            out.append(("noraise", i, 0))
        elif isinstance(n, ast.Assign) and isinstance(n.targets[0], ast.Attribute):
            out.append(("noassign", i, 0))
        elif isinstance(n, ast.Call) and len(n.args) >= 2 and not any(isinstance(a, ast.Starred) for a in n.args):
            out.append(("swapargs", i, 0))
        elif isinstance(n, ast.UnaryOp) and isinstance(n.op, ast.USub):
            out.append(("dropneg", i, 0))
        elif isinstance(n, ast.UnaryOp) and isinstance(n.op, ast.Not):
            out.append(("dropnot", i, 0))
    return out


def apply(tree, site):
    kind, idx, var = site
    t = copy.deepcopy(tree)
    nodes = list(ast.walk(t))
    n = nodes[idx]
    parent = None
    for p in nodes:
        for f, v in ast.iter_fields(p):
            if v is n or (isinstance(v, list) and any(x is n for x in v)):
                parent = (p, f)
    def replace(new):
        p, f = parent
        v = getattr(p, f)
        if isinstance(v, list):
            v[[k for k, x in enumerate(v) if x is n][0]] = new
        else:
            setattr(p, f, new)
    if kind == "cmp":
        n.ops = [CMP[type(n.ops[0])]()]
    elif kind == "bin":
        n.op = BIN[type(n.op)]()
    elif kind == "dropmod":
        replace(n.left)
    elif kind == "bool":
        n.value = not n.value
    elif kind == "int":
        n.value = n.value + var
    elif kind == "bytes":
        n.value = bytes([(n.value[0] + 1) % 256]) + n.value[1:]
    elif kind == "negate":
        n.test = ast.UnaryOp(op=ast.Not(), operand=n.test)
    elif kind in ("noraise", "noassign"):
        replace(ast.Pass())
    elif kind == "swapargs":
        n.args[0], n.args[1] = n.args[1], n.args[0]
    elif kind in ("dropneg", "dropnot"):
        replace(n.operand)
    ast.fix_missing_locations(t)
    return t, getattr(n, "lineno", 0)


def sh(cmd, cwd=None, env=None, timeout=3600):
    e = dict(os.environ)
    e.update(env or {})
    try:
        r = subprocess.run(cmd, cwd=cwd, env=e, capture_output=True, text=True, timeout=timeout)
        return r.returncode, r.stdout + r.stderr
    except subprocess.TimeoutExpired:
        return -99, "timeout"


def evaluate(fname, site, src_tree, src_lines):
    tmp = tempfile.mkdtemp(prefix="mutrun-")
    res = {"file": fname, "kind": site[0], "variant": site[2]}
    try:
        t, line = apply(src_tree, site)
        res["line"] = line
        res["orig"] = src_lines[line - 1].strip()[:120] if 0 < line <= len(src_lines) else ""
        copy_ = os.path.join(tmp, "repo")
        shutil.copytree("/repo", copy_, ignore=shutil.ignore_patterns(".git", "__pycache__", ".benchmarks"))
        try:
            code = ast.unparse(t)
        except Exception as e:          # noqa
            res["status"] = "unparse-error"
            return res
        with open(os.path.join(copy_, "src", "spake2", fname), "w") as f:
            f.write(code)
        env = {"PYTHONPATH": os.path.join(copy_, "src"), "PYTHONDONTWRITEBYTECODE": "1"}
        rc, out = sh([PY, "-m", "pytest", "-q", "-x", "-p", "no:cacheprovider", "--timeout=120", "src/spake2"], cwd=copy_, env=env, timeout=900)
        if rc != 0:
            res["status"] = "killed-by-suite"
            return res
        res["status"] = "survived-suite"
        res["checks"] = {}
        for c in CHECKS[fname]:
            t0 = time.time()
            rcc, outc = sh([os.path.join(V, "check"), c, "--tier", "quick"], cwd=V,
                           env={"VERIF_REPO": copy_, "VERIF_OUT": os.path.join(tmp, "out"), "VERIF_VERBOSE": "0",
                                "VERIF_WATCHDOG_S": "1500"}, timeout=2400)
            lines = outc.splitlines()
            first = ""
            for i, l in enumerate(lines):
                if l.startswith("VIOLATION") and i + 1 < len(lines):
                    first = lines[i + 1].strip()[:200]
                    break
            res["checks"][c] = {"rc": rcc, "first": first, "wall_s": round(time.time() - t0, 1),
                                "machinery": [l[:200] for l in lines if "MACHINERY" in l][:1]}
            if rcc == 1:
                res["status"] = "caught"
                res["caught_by"] = c
                break
        if res["status"] != "caught":
            res["status"] = "not-reported"
    finally:
        shutil.rmtree(tmp, True)
    return res


def main():
    ap = argparse.ArgumentParser()
    ap.add_argument("--out", required=True)
    ap.add_argument("--sample", type=int, default=0)
    ap.add_argument("--seed", type=int, default=0)
    ap.add_argument("--jobs", type=int, default=2)
    ap.add_argument("--files", default=",".join(FILES))
    a = ap.parse_args()
    work = []
    for fname in a.files.split(","):
        src = open(os.path.join("/repo/src/spake2", fname)).read()
        tree = ast.parse(src)
        for s in sites(tree):
            work.append((fname, s, tree, src.splitlines()))
    rng = random.Random(a.seed)
    rng.shuffle(work)
    if a.sample:
        work = work[:a.sample]
    print("mutation sites selected:", len(work), flush=True)
    with open(a.out, "a") as out, ThreadPoolExecutor(a.jobs) as ex:
        for r in ex.map(lambda w: evaluate(*w), work):
            out.write(json.dumps(r) + "\n")
            out.flush()
            print(r["file"], r.get("line"), r["kind"], r["status"], r.get("caught_by", ""), flush=True)


if __name__ == "__main__":
    main()
