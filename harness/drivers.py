"""Drivers: map abstract inputs of the toy models to concrete inputs of the
real code and run call sequences under the tracer."""
import hashlib, hmac, itertools, json

from core import *  # noqa


# --------------------------------------------------------------------------
# the harness's own HKDF: used ONLY to search for passwords / seeds with a
# wanted scalar class.  It produces inputs, never expected values: TLC
# recomputes every scalar with the HKDF of the specification.
# --------------------------------------------------------------------------
def _hkdf(ikm, info, n):
    prk = hmac.new(b"\x00" * 32, ikm, hashlib.sha256).digest()
    t, okm, i = b"", b"", 1
    while len(okm) < n:
        t = hmac.new(prk, t + info + bytes([i]), hashlib.sha256).digest()
        okm += t
        i += 1
    return okm[:n]


def pw_scalar(pw, ssize, q):
    return int.from_bytes(_hkdf(pw, b"SPAKE2 pw", ssize + 16), "big") % q


class Mapper:
    def __init__(self, uni):
        self.uni = uni
        self._pw = {}

    def order(self, gname):
        return self.uni.group(gname).order()

    def ssize(self, gname):
        return self.uni.group(gname).scalar_size_bytes

    def pw_table(self, gname, tags=2):
        """for every scalar class w of a toy group: `tags` distinct short passwords"""
        if gname in self._pw:
            return self._pw[gname]
        q, ss = self.order(gname), self.ssize(gname)
        table = {w: [] for w in range(q)}
        need = q * tags
        for n in itertools.count(0):
            pw = b"pw%d" % n
            w = pw_scalar(pw, ss, q)
            if len(table[w]) < tags:
                table[w].append(pw)
                need -= 1
                if need == 0:
                    break
            if n > 200000:
                raise MachineryError("password search did not terminate")
        self._pw[gname] = table
        return table

    def pw_for(self, gname, w, tag=0):
        return self.pw_table(gname)[w][tag]

    def stream_for(self, gname, x, redraws=0, k=0):
        """an entropy stream that makes random_scalar return x"""
        G = self.uni.group(gname)
        q = G.order()
        if gname == "Ed25519" or gname in TOY_CURVES:
            return (x + k * q).to_bytes(64, "big")
        nb = G.scalar_size_bytes
        return b"\xff" * (nb * redraws) + x.to_bytes(nb, "big")


# --------------------------------------------------------------------------
# script interpreter
# --------------------------------------------------------------------------
class Run:
    """executes a script of public calls on a Trace; keeps named instances,
    messages, keys and blobs so that later steps can refer to earlier results"""

    def __init__(self, name, uni):
        self.t = Trace(name, uni)
        self.inst, self.msg, self.key, self.blob = {}, {}, {}, {}

    def new(self, var, cls, ps, pw, idA=b"", idB=b""):
        self.inst[var] = self.t.new(cls, ps, pw, idA, idB)
        return self

    def start(self, var, stream, fail_after=None):
        self.msg[var] = self.t.start(self.inst[var], stream, fail_after)
        return self.msg[var]

    def finish(self, var, m):
        self.key[var] = self.t.finish(self.inst[var], m)
        return self.key[var]

    def serialize(self, var):
        self.blob[var] = self.t.serialize(self.inst[var])
        return self.blob[var]

    def restore(self, newvar, cls, ps, data, fields=None):
        i = self.t.restore(cls, ps, data, fields)
        if i is not None:
            self.inst[newvar] = i
        return i

    def json(self):
        return self.t.to_json()


def exchange(uni, name, pairing, ps, pwA, pwB, idsA, idsB, sA, sB, restoreA=0, restoreB=0,
             psB=None, tamperA=None, tamperB=None, consts=False):
    """one exchange: both ends start, optionally persist/restore, then each is
    given the other's message (optionally tampered).  Returns the trace."""
    r = Run(name, uni)
    ca, cb = ("A", "B") if pairing == "AB" else ("S", "S")
    psB = psB or ps
    r.new("a", ca, ps, pwA, *idsA)
    r.new("b", cb, psB, pwB, *idsB)
    ma = r.start("a", sA)
    mb = r.start("b", sB)
    a, b = "a", "b"
    for k in range(restoreA):
        blob = r.serialize(a)
        if blob is not None and r.restore("a%d" % k, ca, ps, blob) is not None:
            a = "a%d" % k
    for k in range(restoreB):
        blob = r.serialize(b)
        if blob is not None and r.restore("b%d" % k, cb, psB, blob) is not None:
            b = "b%d" % k
    if ma is not None and mb is not None:
        r.finish(a, tamperA(mb, ma) if tamperA else mb)
        r.finish(b, tamperB(ma, mb) if tamperB else ma)
    if consts:
        r.t.consts(ps)
    return r


# --------------------------------------------------------------------------
# re-execution of a recorded trace (replay of a violation)
# --------------------------------------------------------------------------
def build_universe(header):
    uni = Universe()
    for name, d in header["params"].items():
        if name in ("PEd25519", "P1024", "P2048", "P3072"):
            uni.paramset(name)
        else:
            g = d["grp"]
            gd = header["groups"][g]
            if gd["kind"] == "int" and g not in ("I1024", "I2048", "I3072") and g not in TOY_INT:
                uni.int_group(g, int(gd["p"] or "0", 16), int(gd["q"] or "0", 16), int(gd["g"] or "0", 16))
            uni.paramset(name, grp=g, M=unhx(d["M"]), N=unhx(d["N"]), S=unhx(d["S"]))
    return uni


def reexecute(trace, uni):
    """perform the recorded calls again on the current working tree"""
    t = Trace(trace["name"], uni)
    remap = {}
    for ev in trace["events"]:
        op = ev["op"]
        if op == "new":
            remap[ev["inst"]] = t.new(ev["cls"], ev["ps"], unhx(ev["pw"]), unhx(ev["idA"]), unhx(ev["idB"]))
        elif op in ("start", "finish", "serialize") and ev["inst"] not in remap:
            continue                                    # the instance does not exist on this tree
        elif op == "start":
            script = b"".join(unhx(e["got"]) for e in ev["ent"])
            t.start(remap[ev["inst"]], script)
        elif op == "finish":
            t.finish(remap[ev["inst"]], unhx(ev["arg"]))
        elif op == "serialize":
            t.serialize(remap[ev["inst"]])
        elif op == "restore":
            data = unhx(ev["raw"]) if "raw" in ev and len(ev["raw"]) < 400 and "malformed" in ev else json.dumps(ev["blob"]).encode("ascii")
            i = t.restore_raw(ev["cls"], ev["ps"], data)
            if i is not None:
                remap[ev["inst"]] = i
        elif op == "consts":
            t.consts(ev["ps"])
        else:
            import pure
            pure.reexecute_event(t, ev, uni)
    return t.to_json()
