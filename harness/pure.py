"""Drivers for the pure functions of the library (events of TracePure.tla)."""
import json, os, re

from core import *  # noqa


def dec_result(G, b):
    try:
        e = G.bytes_to_element(b)
        return True, e
    except Exception:
        return False, None


def ev_dec(uni, gname, b):
    ok, e = dec_result(uni.group(gname), b)
    out = {"ok": ok}
    if ok:
        out["enc"] = _hexor(e.to_bytes)
        out["cls"] = type(e).__name__
    return {"op": "g_dec", "grp": gname, "b": hx(b), "out": out}


def domain_strings(d):
    if d["dom"] == "len":
        n = d["n"]
        if n == 0:
            return [b""]
        return [bytes((a,) + t) for a in range(d["lo"], d["hi"])
                for t in __import__("itertools").product(range(256), repeat=n - 1)]
    if d["dom"] == "edy":
        out = []
        for y in range(d["lo"], d["hi"]):
            for s in (0, 1):
                b = bytearray(y.to_bytes(32, "little"))
                b[31] |= 128 * s
                out.append(bytes(b))
        return out
    return [unhx(h) for h in d["bs"]]


def ev_dec_table(uni, gname, d):
    G = uni.group(gname)
    oks, encs = [], []
    for b in domain_strings(d):
        ok, e = dec_result(G, b)
        oks.append(1 if ok else 0)
        if ok:
            encs.append(_hexor(e.to_bytes))
    return {"op": "g_dec_table", "grp": gname, "d": d, "oks": oks, "encs": encs, "w": max(1, len(oks) // 40)}


def gen_from_spec(module, gdesc, timeout=600):
    """run a generator module of the specification (BigNat instance) on a group
    descriptor; returns the parsed JSON it prints"""
    path = os.path.join(scratch(), "gen_%d_%s.json" % (os.getpid(), module))
    with open(path, "w") as f:
        json.dump(gdesc, f)
    cfgp = os.path.join(scratch(), "gen_%d.cfg" % os.getpid())
    with open(cfgp, "w") as f:
        f.write("INIT Init\nNEXT Next\nCHECK_DEADLOCK FALSE\n")
    res = run_tlc("big", module + ".tla", cfgp, workers=1, env={"GEN_FILE": path}, timeout=timeout)
    os.unlink(path)
    m = re.search(r'^"GEN (.*)"$', res["out"], re.M)
    if not tlc_ok(res) or not m:
        raise MachineryError("generator %s failed:\n%s" % (module, res["out"][-3000:]))
    return json.loads(json.loads('"' + m.group(1) + '"')), res


def reexecute_event(t, ev, uni):
    op = ev["op"]
    if op == "g_dec":
        t.raw(ev_dec(uni, ev["grp"], unhx(ev["b"])))
    elif op == "g_dec_table":
        t.raw(ev_dec_table(uni, ev["grp"], ev["d"]))
    else:
        raise MachineryError("cannot re-execute event " + op)


# --------------------------------------------------------------------------
# C13: the element API
# --------------------------------------------------------------------------
def make_elem(G, k, how):
    """the element k.Base obtained through different API paths"""
    q = G.order()
    k %= q
    if how == "mul":
        return G.Base.scalarmult(k)
    if how == "dec":                      # decoded from bytes (fresh object)
        b = G.Base.scalarmult(k).to_bytes()
        try:
            return G.bytes_to_element(b)
        except Exception:
            return G.Zero if k == 0 else G.Base.scalarmult(k)
    if how == "sum":                      # result of an addition
        return G.Base.scalarmult(k - 1).add(G.Base) if k != 0 else G.Base.scalarmult(q - 1).add(G.Base)
    if how == "addzero":
        return G.Base.scalarmult(k).add(G.Zero)
    if how == "zeroadd":
        return G.Zero.add(G.Base.scalarmult(k))
    if how == "bigmul":                   # scalar >= q
        return G.Base.scalarmult(k + 2 * q)
    if how == "negmul":                   # negative scalar
        return G.Base.scalarmult(k - q)
    raise ValueError(how)


def result_rec(e):
    r = {"enc": "", "cls": type(e).__name__, "negok": 0, "neg": ""}
    try:
        r["enc"] = hx(e.to_bytes())
    except Exception as ex:
        r["cls"] += "!to_bytes:" + type(ex).__name__
    try:
        r["neg"] = hx(e.scalarmult(-1).to_bytes())
        r["negok"] = 1
    except Exception as ex:
        r["negerr"] = type(ex).__name__
    return r


def guarded(f):
    try:
        return result_rec(f())
    except Exception as ex:
        return {"enc": "", "cls": "!" + type(ex).__name__, "negok": 0, "neg": ""}


def ev_add_row(uni, gname, a, how, how2):
    G = uni.group(gname)
    q = G.order()
    ea = make_elem(G, a, how)
    return {"op": "g_add_row", "grp": gname, "a": a, "how": how + "," + how2,
            "outs": [guarded(lambda: ea.add(make_elem(G, j, how2))) for j in range(q)], "w": max(1, q // 4)}


def ev_mul_row(uni, gname, a, how, lo, hi):
    G = uni.group(gname)
    ea = make_elem(G, a, how)
    return {"op": "g_mul_row", "grp": gname, "a": a, "how": how, "lo": lo, "hi": hi,
            "outs": [guarded(lambda: ea.scalarmult(n)) for n in range(lo, hi + 1)], "w": max(1, (hi - lo) // 4)}


def ev_eq_row(uni, gname, a, how, how2):
    G = uni.group(gname)
    q = G.order()
    ea = make_elem(G, a, how)
    eq, ne = [], []
    for j in range(q):
        ej = make_elem(G, j, how2)
        eq.append(1 if ea == ej else 0)
        ne.append(1 if ea != ej else 0)
    return {"op": "g_eq_row", "grp": gname, "a": a, "how": how + "," + how2, "eq": eq, "ne": ne}


def ev_neg_row(uni, gname, a, how):
    """negate / subtract, where the element type offers them"""
    G = uni.group(gname)
    q = G.order()
    ea = make_elem(G, a, how)
    if not hasattr(ea, "negate"):
        return None
    return {"op": "g_neg_row", "grp": gname, "a": a, "how": how,
            "negs": [guarded(lambda: make_elem(G, j, how).negate()) for j in range(q)],
            "subs": [guarded(lambda: ea.subtract(make_elem(G, j, how))) for j in range(q)], "w": max(1, q // 2)}


def sc(n):
    return {"neg": 1 if n < 0 else 0, "mag": numhex(abs(n))}


def ev_op(uni, gname, fn, ka, kb=None, n=None, how="mul"):
    G = uni.group(gname)
    ea = make_elem(G, ka, how)
    ev = {"op": "g_op", "grp": gname, "fn": fn, "ka": numhex(ka % G.order()), "how": how,
          "kb": numhex(kb % G.order()) if kb is not None else "", "n": sc(n if n is not None else 0)}
    if fn == "add":
        ev["out"] = guarded(lambda: ea.add(make_elem(G, kb, how)))
    elif fn == "sub":
        ev["out"] = guarded(lambda: ea.subtract(make_elem(G, kb, how)))
    elif fn == "neg":
        ev["out"] = guarded(lambda: ea.negate())
    elif fn == "mul":
        ev["out"] = guarded(lambda: ea.scalarmult(n))
    elif fn == "eq":
        eb = make_elem(G, kb, "dec")
        ev["out"] = {"eq": 1 if ea == eb else 0, "ne": 1 if ea != eb else 0}
    return ev


# --------------------------------------------------------------------------
# C12: the three extended-coordinate formulas
# --------------------------------------------------------------------------
ED_FUNCS = {"add3": "add_elements", "add4": "_add_elements_nonunfied", "dbl": "double_element"}


def straight_line(basic, fname):
    """the function is straight-line arithmetic: no branch, loop, comparison or call in its body"""
    import ast, inspect, textwrap
    src = textwrap.dedent(inspect.getsource(getattr(basic, fname)))
    fn = ast.parse(src).body[0]
    bad = [type(n).__name__ for n in ast.walk(fn)
           if isinstance(n, (ast.If, ast.While, ast.For, ast.IfExp, ast.BoolOp, ast.Compare, ast.Call, ast.Try, ast.With,
                             ast.Lambda, ast.ListComp, ast.GeneratorExp))]
    return bad == [], bad


def scale(P, z, Q):
    x, y = P
    return (x * z % Q, y * z % Q, z % Q, x * y * z % Q)


def toy_curve_points(basic):
    """all affine points of a toy curve by exhaustive search of the curve equation
    (inputs for the table; the specification re-checks that each operand is a curve point)"""
    Q, d = basic.Q, basic.d % basic.Q
    return [(x, y) for y in range(Q) for x in range(Q) if (-x * x + y * y - 1 - d * x * x * y * y) % Q == 0]


def ev_ed_tab(uni, gname, fn, P1, z1, p2s, z2s):
    basic = uni.basic[gname]
    Q = basic.Q
    f = getattr(basic, ED_FUNCS[fn])
    r1 = scale(P1, z1, Q)
    r2s, outs = [], []
    for P2 in p2s:
        for z2 in z2s:
            r2 = scale(P2, z2, Q)
            out = f(r1) if fn == "dbl" else f(r1, r2)
            r2s.append(list(r2))
            outs.append([int(v) % Q for v in out])
    return {"op": "ed_tab", "grp": gname, "fn": fn, "r1": list(r1), "r2s": r2s, "outs": outs, "w": max(1, len(outs) // 8)}


def ev_ed_op(uni, gname, fn, r1, r2, note):
    basic = uni.basic[gname]
    Q = basic.Q
    f = getattr(basic, ED_FUNCS[fn])
    out = f(tuple(r1)) if fn == "dbl" else f(tuple(r1), tuple(r2))
    return {"op": "ed_op", "grp": gname, "fn": fn, "r1": [numhex(v % Q) for v in r1], "r2": [numhex(v % Q) for v in r2],
            "out": [numhex(int(v) % Q) for v in out], "note": note, "w": 4}


# --------------------------------------------------------------------------
# C11 sampler, C14 derivations, C15 codecs, C17 transcript, C18 constants
# --------------------------------------------------------------------------
def small(v):
    """JSON integers must fit TLC's 32-bit integers; anything else (a wildly wrong result) becomes -1, which no
    specification value equals"""
    return v if isinstance(v, int) and not isinstance(v, bool) and -2 ** 31 < v < 2 ** 31 else -1


def _val(f):
    try:
        return {"t": "val", "v": f()}
    except Exception as e:
        return {"t": "err", "v": type(e).__name__}


def ev_rr(start, stop, script):
    sp = load_repo()
    log = []
    pos = [0]

    def f(n):
        got = script[pos[0]:pos[0] + n]
        pos[0] += n
        got = got + bytes(n - len(got))
        if len(log) > 200:
            raise EntropyExhausted("sampler does not terminate")
        log.append({"req": n, "got": hx(got)})
        return got
    out = _val(lambda: numhex(sp.util.unbiased_randrange(start, stop, f)))
    return {"op": "rr", "start": numhex(start), "stop": numhex(stop), "ent": log, "out": out}


def ev_rr_table(start, width, lo=0, hi=None):
    """unbiased_randrange(start, start+width) for every first draw r in [lo, hi): the entropy function serves the
    bytes of r and then zeros, whatever the size of the individual requests; recorded: the result and the number of
    bytes consumed"""
    sp = load_repo()
    nb = max(1, (width.bit_length() + 7) // 8)
    hi = 256 ** nb if hi is None else hi
    res, used = [], []
    for r in range(lo, hi):
        stream = r.to_bytes(nb, "big")
        pos = [0]

        def f(n):
            if pos[0] > 60 * nb:
                raise EntropyExhausted("sampler does not terminate")
            got = stream[pos[0]:pos[0] + n]
            pos[0] += n
            return got + bytes(n - len(got))
        try:
            res.append(small(sp.util.unbiased_randrange(start, start + width, f)))
        except Exception:
            res.append(-1)
        used.append(pos[0])
    return {"op": "rr_table", "start": start, "width": width, "nb": nb, "lo": lo, "hi": hi, "res": res, "nreq": used,
            "w": max(1, (hi - lo) // 60)}


def ev_rs(uni, gname, script):
    """group.random_scalar(entropy_f) called directly: the secret scalar as a function of the bytes served (C11)"""
    G = uni.group(gname)
    log = []
    pos = [0]

    def f(n):
        got = script[pos[0]:pos[0] + n]
        pos[0] += n
        got = got + bytes(n - len(got))
        if len(log) > 200:
            raise EntropyExhausted("sampler does not terminate")
        log.append({"req": n, "got": hx(got)})
        return got
    out = _val(lambda: numhex(G.random_scalar(f)))
    return {"op": "rs", "grp": gname, "ent": log, "out": out}


def ev_rs_table(uni, gname, streams):
    """random_scalar on many entropy streams of one draw each (volume: rare residues of a hand-written reduction);
    every stream is exactly the bytes of one draw, recorded: the scalar returned and the bytes consumed"""
    G = uni.group(gname)
    res, used = [], []
    for st in streams:
        pos = [0]

        def f(n):
            if pos[0] > 50 * len(st):
                raise EntropyExhausted("sampler does not terminate")
            got = st[pos[0]:pos[0] + n]
            pos[0] += n
            return got + bytes(n - len(got))
        try:
            r = G.random_scalar(f)
            res.append(numhex(r) if isinstance(r, int) and r >= 0 else "neg")
        except Exception as e:
            if isinstance(e, EntropyExhausted):
                res.append("loop")
            else:
                res.append("err")
        used.append(pos[0])
    return {"op": "rs_table", "grp": gname, "ents": [hx(s) for s in streams], "res": res, "used": used,
            "w": max(1, len(streams) // 60)}


def ev_pw2s(uni, gname, pw):
    G = uni.group(gname)
    return {"op": "pw2s", "grp": gname, "pw": hx(pw), "out": _val(lambda: numhex(G.password_to_scalar(pw)))}


def ev_arb(uni, gname, seed):
    G = uni.group(gname)
    try:
        e = G.arbitrary_element(seed)
        out = {"t": "elem", "enc": hx(e.to_bytes()), "cls": type(e).__name__}
    except Exception as ex:
        out = {"t": "err", "v": type(ex).__name__}
    return {"op": "arb", "grp": gname, "seed": hx(seed), "out": out}


def ev_n2b_table(maxval):
    sp = load_repo()
    u = sp.util
    def enc(n):
        try:
            return u.number_to_bytes(n, maxval)
        except Exception:               # recorded as an impossible encoding: the specification rejects it
            return b"\xee" * 9
    outs = [enc(n) for n in range(maxval + 1)]
    try:
        u.number_to_bytes(maxval + 1, maxval)
        over = ""
    except Exception as e:
        over = type(e).__name__
    def back(o):
        try:
            return small(u.bytes_to_number(o))
        except Exception:
            return -1
    return {"op": "n2b_table", "maxval": maxval, "outs": [hx(o) if isinstance(o, bytes) else "" for o in outs], "back": [back(o) for o in outs],
            "over": over, "size_bytes": small(u.size_bytes(maxval)), "size_bits": small(u.size_bits(maxval)), "w": max(1, maxval // 50)}


def ev_n2b(num, maxval):
    sp = load_repo()
    u = sp.util
    try:
        b = u.number_to_bytes(num, maxval)
        return {"op": "n2b", "num": numhex(num), "maxval": numhex(maxval), "out": {"t": "val", "v": hx(b)},
                "back": numhex(u.bytes_to_number(b))}
    except Exception as e:
        return {"op": "n2b", "num": numhex(num), "maxval": numhex(maxval), "out": {"t": "err", "v": type(e).__name__}, "back": ""}


def ev_s_codec(uni, gname, k):
    G = uni.group(gname)
    try:
        enc = G.scalar_to_bytes(k)
        dec = numhex(G.bytes_to_scalar(enc))
        enc = hx(enc)
    except Exception as e:              # recorded, so that the specification gives the verdict
        enc, dec = "", "ff" * 80
        return {"op": "s_codec", "grp": gname, "k": numhex(k), "enc": enc, "dec": dec, "raised": type(e).__name__}
    return {"op": "s_codec", "grp": gname, "k": numhex(k), "enc": enc, "dec": dec}


def _hexor(f):
    try:
        return hx(f())
    except Exception:                   # a raising call is recorded as an empty result
        return ""


def ev_finalize(idA, idB, X, Y, K, pw):
    sp = load_repo()
    return {"op": "finalize", "idA": hx(idA), "idB": hx(idB), "X": hx(X), "Y": hx(Y), "K": hx(K), "pw": hx(pw),
            "out": _hexor(lambda: sp.spake2.finalize_SPAKE2(idA, idB, X, Y, K, pw))}


def ev_finalize_sym(idS, m1, m2, K, pw):
    sp = load_repo()
    f = sp.spake2.finalize_SPAKE2_symmetric
    return {"op": "finalize_sym", "idS": hx(idS), "m1": hx(m1), "m2": hx(m2), "K": hx(K), "pw": hx(pw),
            "out": _hexor(lambda: f(idS, m1, m2, K, pw)), "swapped": _hexor(lambda: f(idS, m2, m1, K, pw))}


def ev_params_sound(uni, psname, gname):
    sp = load_repo()
    P = uni.paramset(psname)
    d = sp.spake2.SPAKE2_A(b"pw").params
    names = {id(sp.parameters.all.ParamsEd25519): "ParamsEd25519", id(sp.parameters.all.Params1024): "Params1024",
             id(sp.parameters.all.Params2048): "Params2048", id(sp.parameters.all.Params3072): "Params3072"}
    dflt = names.get(id(d), "?")
    if sp.spake2.DefaultParams is not d or sp.SPAKE2_Symmetric(b"pw").params is not d or sp.SPAKE2_B(b"pw").params is not d:
        dflt = "inconsistent"
    G = P.group
    return {"op": "params_sound", "group": gname, "live": uni.gdesc[gname],
            "seeds": {"M": hx(P.M_str), "N": hx(P.N_str), "S": hx(P.S_str)},
            "M": hx(P.M.to_bytes()), "N": hx(P.N.to_bytes()), "S": hx(P.S.to_bytes()), "base": hx(G.Base.to_bytes()),
            "default": dflt, "w": 60}


def ev_ctor_table(p, q):
    sp = load_repo()
    acc = []
    for g in range(1, p):
        try:
            sp.groups.IntegerGroup(p=p, q=q, g=g)
            acc.append(1)
        except Exception:
            acc.append(0)
    return {"op": "ctor_table", "p": p, "q": q, "acc": acc}


# --------------------------------------------------------------------------
# beyond the listed properties: unknown-group elements (all curve points), util helpers
# --------------------------------------------------------------------------
def _upoint(basic, h):
    return basic.Zero if h == "zero" else basic.bytes_to_unknown_group_element(unhx(h))


def _uout(f):
    try:
        e = f()
        return {"t": "elem", "enc": hx(e.to_bytes()), "cls": type(e).__name__}
    except Exception as ex:
        return {"t": "err", "v": type(ex).__name__}


def ev_u_op(uni, gname, fn, a, b=None, n=0):
    basic = uni.basic[gname]
    if fn == "add":
        out = _uout(lambda: _upoint(basic, a).add(_upoint(basic, b)))
    else:
        out = _uout(lambda: _upoint(basic, a).scalarmult(n))
    return {"op": "u_op", "grp": gname, "fn": fn, "a": a, "b": b or "", "n": numhex(n), "out": out, "w": 3}


def ev_u_dec(uni, gname, b):
    basic = uni.basic[gname]
    return {"op": "u_dec", "grp": gname, "b": hx(b), "out": _uout(lambda: basic.bytes_to_unknown_group_element(b))}


def ev_mask_table(top):
    sp = load_repo()
    res = [sp.util.generate_mask(m) for m in range(1, top + 1)]
    return {"op": "mask_table", "masks": [small(r[0]) for r in res], "nbytes": [small(r[1]) for r in res], "w": max(1, top // 100)}


def ev_misuse(what, f):
    """a call that misuses the API (wrong types, elements of another group): it must raise"""
    try:
        f()
        raised = 0
    except Exception:
        raised = 1
    return {"op": "misuse", "what": what, "raised": raised}


def misuse_events(uni, gname, other):
    G, H = uni.group(gname), uni.group(other)
    B = G.Base
    evs = [ev_misuse("%s: add(bytes)" % gname, lambda: B.add(b"x")),
           ev_misuse("%s: add(int)" % gname, lambda: B.add(5)),
           ev_misuse("%s: add(None)" % gname, lambda: B.add(None)),
           ev_misuse("%s: scalarmult(element)" % gname, lambda: B.scalarmult(B)),
           ev_misuse("%s: scalarmult(bytes)" % gname, lambda: B.scalarmult(b"\x02")),
           ev_misuse("%s: scalarmult(1.5)" % gname, lambda: B.scalarmult(1.5)),
           ev_misuse("%s: bytes_to_element(str)" % gname, lambda: G.bytes_to_element("00")),
           ev_misuse("%s: password_to_scalar(str)" % gname, lambda: G.password_to_scalar("pw")),
           ev_misuse("%s: arbitrary_element(str)" % gname, lambda: G.arbitrary_element("seed")),
           ev_misuse("bytes_to_number(str)", lambda: load_repo().util.bytes_to_number("00"))]
    if type(G.Base) is not type(H.Base) or getattr(G.Base, "_group", None) is not getattr(H.Base, "_group", 0):
        evs.append(ev_misuse("%s + element of %s" % (gname, other), lambda: B.add(H.Base).to_bytes()))
    e1, e2 = B.scalarmult(5), B.scalarmult(2).add(B.scalarmult(3))
    try:
        same = 1 if (e1 == e2 and hash(e1) == hash(e2)) else 0
    except TypeError:                      # unhashable elements cannot violate hash consistency
        same = 1
    evs.append({"op": "hash_eq", "grp": gname, "same": same})
    evs.append(ev_misuse("%s: element == 5 is True" % gname, lambda: (_ for _ in ()).throw(ValueError()) if not (B == 5) else None))
    return evs


def ev_clamp(uni, gname, b):
    basic = uni.basic[gname]
    return {"op": "clamp", "grp": gname, "b": hx(b), "out": _val(lambda: numhex(basic.bytes_to_clamped_scalar(b)))}


def ev_mixed_add(uni, gname, k, u, order):
    basic = uni.basic[gname]
    G = uni.group(gname)
    P = G.Base.scalarmult(k)
    U = _upoint(basic, u)
    return {"op": "mixed_add", "grp": gname, "k": numhex(k), "u": u, "order": order,
            "out": _uout((lambda: P.add(U)) if order == 0 else (lambda: U.add(P))), "w": 2}
