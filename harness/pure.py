"""Drivers for the pure functions of the library (events of TracePure.tla)."""
import json, os, re

from core import *  # noqa


def dec_result(G, b):
    try:
        e = G.bytes_to_element(b)
        return True, e
    except Exception:
        return False, None


def ev_dec(uni, gname, b):
    ok, e = dec_result(uni.group(gname), b)
    out = {"ok": ok}
    if ok:
        out["enc"] = hx(e.to_bytes())
        out["cls"] = type(e).__name__
    return {"op": "g_dec", "grp": gname, "b": hx(b), "out": out}


def domain_strings(d):
    if d["dom"] == "len":
        n = d["n"]
        if n == 0:
            return [b""]
        return [bytes((a,) + t) for a in range(d["lo"], d["hi"])
                for t in __import__("itertools").product(range(256), repeat=n - 1)]
    if d["dom"] == "edy":
        out = []
        for y in range(d["lo"], d["hi"]):
            for s in (0, 1):
                b = bytearray(y.to_bytes(32, "little"))
                b[31] |= 128 * s
                out.append(bytes(b))
        return out
    return [unhx(h) for h in d["bs"]]


def ev_dec_table(uni, gname, d):
    G = uni.group(gname)
    oks, encs = [], []
    for b in domain_strings(d):
        ok, e = dec_result(G, b)
        oks.append(1 if ok else 0)
        if ok:
            encs.append(hx(e.to_bytes()))
    return {"op": "g_dec_table", "grp": gname, "d": d, "oks": oks, "encs": encs, "w": max(1, len(oks) // 40)}


def gen_from_spec(module, gdesc, timeout=600):
    """run a generator module of the specification (BigNat instance) on a group
    descriptor; returns the parsed JSON it prints"""
    path = os.path.join(scratch(), "gen_%d_%s.json" % (os.getpid(), module))
    with open(path, "w") as f:
        json.dump(gdesc, f)
    cfgp = os.path.join(scratch(), "gen_%d.cfg" % os.getpid())
    with open(cfgp, "w") as f:
        f.write("INIT Init\nNEXT Next\nCHECK_DEADLOCK FALSE\n")
    res = run_tlc("big", module + ".tla", cfgp, workers=1, env={"GEN_FILE": path}, timeout=timeout)
    os.unlink(path)
    m = re.search(r'^"GEN (.*)"$', res["out"], re.M)
    if not tlc_ok(res) or not m:
        raise MachineryError("generator %s failed:\n%s" % (module, res["out"][-3000:]))
    return json.loads(json.loads('"' + m.group(1) + '"')), res


def reexecute_event(t, ev, uni):
    op = ev["op"]
    if op == "g_dec":
        t.raw(ev_dec(uni, ev["grp"], unhx(ev["b"])))
    elif op == "g_dec_table":
        t.raw(ev_dec_table(uni, ev["grp"], ev["d"]))
    else:
        raise MachineryError("cannot re-execute event " + op)
