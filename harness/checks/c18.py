"""C18 shipped parameter sets are sound prime-order groups as published."""
from framework import *
from drivers import *
import pure

LEVEL = "model_checking"


def small_pq():
    ps = [p for p in range(3, 80) if all(p % d for d in range(2, p))]
    return [(p, q) for p in ps for q in ps if (p - 1) % q == 0]


def run(ctx):
    thorough = ctx.tier == "thorough"
    pqs = small_pq() if thorough else small_pq()[:14]
    ctx.mc("MC_Ctor", cfg(constants=dict(toy_consts("i23"), PQS="{%s}" % ",".join(str(100000 * p + q) for p, q in pqs)),
                          invariants=["AcceptsExactlyOrderDividingQ"]),
           label="MC_Ctor[%d (p,q) pairs, every g]" % len(pqs))
    # the specification itself against the published constants and vectors (full-size instance)
    res = run_tlc("big", "Published.tla", "Published.cfg", workers=1)
    if not tlc_ok(res):
        raise MachineryError("Published.tla: the specification disagrees with the published vectors:\n" + strip_cov(res["out"])[-3000:])
    ctx.cov["models"].append({"model": "Published (spec vs published vectors and constants)", "wall_s": round(res["wall"], 1)})
    uni = Universe()
    traces = []
    for ps, g in [("PEd25519", "Ed25519"), ("P1024", "I1024"), ("P2048", "I2048"), ("P3072", "I3072")]:
        uni.paramset(ps)
        t = Trace("sound/" + g, uni)
        t.raw(pure.ev_params_sound(uni, ps, g))
        t.consts(ps)
        traces.append(t.to_json())
    t = Trace("constructor", uni)
    for p, q in pqs:
        t.raw(pure.ev_ctor_table(p, q))
    traces.append(t.to_json())
    ctx.validate(traces, uni, what="parameter sets")
