"""C06 side confusion and reflection."""
from framework import *
from drivers import *

PEER = {"A": b"B", "B": b"A", "S": b"S"}


def model(ctx, g, cls, wset, witness):
    consts = dict(toy_consts(g))
    consts.update({"CLS": '"%s"' % cls, "WSET": "{%s}" % ",".join(map(str, wset)),
                   "ParamSets": "<- MC_ParamSets", "Passwords": "<- MC_Passwords", "IdPairs": "<- MC_IdPairs",
                   "ClassSet": "<- MC_ClassSet", "MaxInst": "2", "MaxRestore": "1",
                   "ScalarChoices": "<- MC_ScalarChoices", "Attacker": "<- MC_Attacker"})
    label = "MC_Sides[%s,%s,|w|=%d,256 side bytes x all elements + empty, fresh+restored]" % (g, cls, len(wset))
    ctx.mc("MC_Sides", cfg(view="ViewNoLast", spec="SidesSpec", constants=consts,
                           invariants=["SideRefusals", "NeverKeyForWrongSide", "AtMostOneKey", "KeyOnlyFromCanonical", "LifecycleInv"],
                           properties=["RefinesLifecycle"]),
           label=label)
    if witness:
        ws = ["NoWitnessReflectedRestored", "NoWitnessOffSides", "NoWitnessKey"]
        ctx.witness("MC_Sides", cfg(view="ViewNoLast", spec="SidesSpec", constants=consts, invariants=ws), ws, label=label)


def side_traces(uni, mp, g, ps, sides, tag, rng):
    """a started instance (fresh or revived) receives side || valid element, for every side value;
    and its own element under every label"""
    G = uni.group(g)
    q = G.order()
    traces = []
    for cls in ("A", "B", "S"):
        for restored in (False, True):
            for k, sb in enumerate(sides):
                r = Run("%s/%s/%s/%s/side=%s" % (tag, g, cls, "restored" if restored else "fresh", hx(sb)), uni)
                r.new("a", cls, ps, b"pw", b"idA", b"idB" if cls != "S" else b"")
                x = rng.randrange(1, q)
                m = r.start("a", mp.stream_for(g, x))
                who = "a"
                if restored:
                    blob = r.serialize("a")
                    if r.restore("a2", cls, ps, blob) is not None:
                        who = "a2"
                own = m[1:]
                # a valid element that is not our own
                other = G.Base.scalarmult((x % (q - 1)) + 1 if q > 2 else 1).to_bytes()
                body = own if k % 5 == 4 else other
                r.finish(who, sb + body)
                traces.append(r.json())
    return traces


def run(ctx):
    thorough = ctx.tier == "thorough"
    for g, wset in ([("i11", [0, 1, 2, 3, 4]), ("ed37", [0, 1]), ("i23", [0, 1])] if thorough else [("i11", [0, 1])]):
        for cls in ("A", "B", "S"):
            model(ctx, g, cls, wset, witness=(g == "i11"))
    if not thorough:
        model(ctx, "ed37", "S", [1], witness=False)
    uni = Universe()
    mp = Mapper(uni)
    allsides = [bytes([b]) for b in range(256)] + [b""]
    some = [b"", b"\x00", b"@", b"A", b"B", b"C", b"R", b"S", b"T", b"a", b"b", b"s", b"\xff", b"\x41\x42"[:1]]
    traces = []
    for g in (["i11", "i23", "ed37", "ed109"] if thorough else ["i23", "ed37"]):
        uni.paramset("P" + g, grp=g)
        traces += side_traces(uni, mp, g, "P" + g, allsides, "toy", ctx.rng)
    for ps, g in [("PEd25519", "Ed25519"), ("P1024", "I1024"), ("P2048", "I2048"), ("P3072", "I3072")]:
        uni.paramset(ps)
        sides = allsides if thorough else some + [bytes([ctx.rng.randrange(256)]) for _ in range(2)]
        traces += side_traces(uni, mp, g, ps, sides, "shipped", ctx.rng)
    # two things wrong at once: a wrong label in front of a body of the WRONG WIDTH (bare side byte, truncated, extended,
    # the width of another group): the label decides (OffSides for A/B labels), whatever the body looks like
    for ps, g in [("Pi23", "i23"), ("Ped37", "ed37"), ("PEd25519", "Ed25519"), ("P1024", "I1024")]:
        G = uni.group(g)
        q = G.order()
        valid = G.Base.scalarmult(3 % q or 1).to_bytes()
        bodies = [b"", valid[:-1], valid + b"\x00", valid[:1], valid + valid, b"\x00" * 33, b"\x01" * 129]
        for cls in ("A", "B", "S"):
            for restored in (False, True):
                r = Run("wrong-label-wrong-width/%s/%s/%s" % (g, cls, "restored" if restored else "fresh"), uni)
                n = 0
                for sb in (b"A", b"B", b"S", b"C"):
                    for body in bodies:
                        n += 1
                        v = "v%d" % n
                        r.new(v, cls, ps, b"pw", b"idA", b"idB" if cls != "S" else b"")
                        r.start(v, mp.stream_for(g, 5 % q))
                        who = v
                        if restored:
                            blob = r.serialize(v)
                            if blob is not None and r.restore(v + "r", cls, ps, blob) is not None:
                                who = v + "r"
                        r.finish(who, sb + body)
                traces.append(r.json())
    ctx.validate(traces, uni, what="side/reflection")
