"""C14 derivations exact and in-group."""
from framework import *
from drivers import _hkdf as drivers_hkdf
from drivers import *
import pure

PWS = [b"", b"\x00", b"a", b"pw", b"password", b"p" * 55, b"q" * 56, b"r" * 63, b"s" * 64, b"t" * 65, b"u" * 200,
       b"\x00\x01\xfe\xff", "pässwörd-ü".encode(), b"\x00" * 32, b"M", b"N", b"symmetric", b"A", b"B",
       # byte strings a normalising implementation would change: non-NFC UTF-8, case, surrounding whitespace, BOM
       b"cafe\xcc\x81", "caf\u00e9".encode(), "\u212b".encode(), "\u00c5".encode(), "\u2126".encode(), "\u1100\u1161".encode(),
       b"Password", b"PASSWORD", b" pw", b"pw ", b"pw\n", b"\tpw", b"\xef\xbb\xbfpw", b"pw\x00", b"\xff\xfe", b"\xc3\x28"]


def run(ctx):
    thorough = ctx.tier == "thorough"
    f7_model = False
    for g in (list(TOY_INT) + list(TOY_CURVES) if thorough else ["i11", "i23", "i263", "ed37", "ed109"]):
        c = toy_consts(g)
        ctx.mc("MC_Derive", cfg(constants=c, invariants=["ArbSoundButF7", "PwScalarInRange"]),
               label="MC_Derive[%s, every h / y]" % g)
        if g in ("i11", "i23"):
            res = ctx.mc("MC_Derive", cfg(constants=c, invariants=["ArbSound"]), label="MC_Derive[%s] strict (F7 expected)" % g,
                         expect_violation="ArbSound")
            f7_model = f7_model or "ArbSound" in res["violated"]
    uni = Universe()
    traces = []
    extra = [bytes(ctx.rng.randrange(256) for _ in range(ctx.rng.randrange(1, 90))) for _ in range(40 if thorough else 6)]
    # a sweep over input lengths (block boundaries of SHA-256/HMAC: 55/56, 63/64/65, 119/120, 127/128/129, 255/256)
    lens = list(range(0, 140)) + [191, 192, 193, 255, 256, 257, 511, 512, 513, 1000] if thorough else \
        [k for k in range(0, 140) if k % 5 == ctx.seed % 5 or k in (31, 32, 33, 47, 48, 49, 55, 56, 63, 64, 65, 119, 120, 127, 128, 129)] + [255, 256, 257]
    sweep = [bytes((7 * k + j) % 251 for j in range(k)) for k in lens]
    inputs = PWS + extra
    for g in (list(TOY_INT) + list(TOY_CURVES) if thorough else ["i11", "i23", "i263", "i32771", "ed37", "ed109"]):
        uni.group(g)
        ins = inputs + [b"s%d" % k for k in range(40 if thorough else 12)] + (sweep if g in ("i23", "ed37") or thorough else [])
        for i in range(0, len(ins), 2):          # short traces: at most 2 possible F7 events each (error cap is 5)
            t = Trace("derive/%s/%d" % (g, i), uni)
            for x in ins[i:i + 2]:
                t.raw(pure.ev_pw2s(uni, g, x))
                t.raw(pure.ev_arb(uni, g, x))
            traces.append(t.to_json())
    for ps, g in [("PEd25519", "Ed25519"), ("P1024", "I1024"), ("P2048", "I2048"), ("P3072", "I3072")]:
        uni.paramset(ps)
        ins = (inputs + sweep) if thorough else inputs[:12] + extra[:2] + inputs[19:35:3] + sweep[ctx.seed % 4::4]
        for i in range(0, len(ins), 4):
            t = Trace("derive/%s/%d" % (g, i), uni)
            for x in ins[i:i + 4]:
                t.raw(pure.ev_pw2s(uni, g, x))
                t.raw(pure.ev_arb(uni, g, x))
            traces.append(t.to_json())
        t = Trace("constants/" + g, uni)
        t.raw(pure.ev_params_sound(uni, ps, g))       # live M, N, S are the released constants
        traces.append(t.to_json())

    # custom groups of unusual shape (core.zoo): HKDF output lengths of several hash blocks plus a partial one
    # (s600: 75-byte elements, 91-byte password expansion; m521: 66 bytes), one-byte q, q filling its bytes
    zl = ["s600", "m521", "q251", "q64full", "s136", "s264", "s72a", "s72b", "m64", "m65"]
    for g in (zl if thorough else zl[:4]):
        uni.group(g)
        ins = (inputs[:20] + sweep[::7]) if thorough else inputs[:8] + sweep[ctx.seed % 9::9]
        for i in range(0, len(ins), 2):
            t = Trace("derive/%s/%d" % (g, i), uni)
            for x in ins[i:i + 2]:
                t.raw(pure.ev_pw2s(uni, g, x))
                t.raw(pure.ev_arb(uni, g, x))
            traces.append(t.to_json())
    # Ed25519 seeds chosen (with the harness's own HKDF - input selection only, the specification recomputes
    # everything) so that the candidate y ends in 0xff / 0xffff: the search for the first curve point at or after y
    # then has to carry across one and two byte boundaries whenever that candidate is rejected
    Q = 2 ** 255 - 19
    want = {1: 10 if thorough else 6, 2: 3 if thorough else 2}
    carry = []
    for k in range(400000):
        seed = b"carry-%d" % k
        y = int.from_bytes(drivers_hkdf(seed, b"SPAKE2 arbitrary element", 48), "big") % Q
        nb = 2 if y % 65536 == 65535 else 1 if y % 256 == 255 else 0
        if nb and want[nb] > 0:
            want[nb] -= 1
            carry.append(seed)
            if not any(want.values()):
                break
    uni.group("Ed25519")
    for i in range(0, len(carry), 4):
        t = Trace("derive/Ed25519/carry-%d" % i, uni)
        for x in carry[i:i + 4]:
            t.raw(pure.ev_arb(uni, "Ed25519", x))
        traces.append(t.to_json())
    ctx.cov["ed25519_seeds_with_byte_carry_in_the_y_search"] = len(carry)

    # soak: determinism must survive thousands of other derivations on the same group object (bounded caches, eviction)
    for g in ["i23", "Ed25519", "I1024"] + (["ed37", "I3072"] if thorough else []):
        G = uni.group(g)
        probes = [b"", b"a", b"\x00", b"M", b"pw"]
        t = Trace("soak/%s/before" % g, uni)
        for x in probes:
            t.raw(pure.ev_pw2s(uni, g, x))
            t.raw(pure.ev_arb(uni, g, x))
        traces.append(t.to_json())
        nbulk = 6000 if thorough else 2600
        t = Trace("soak/%s/bulk-sample" % g, uni)
        for k in range(nbulk):
            pwk = b"soak-%d" % k
            if k % (nbulk // 12) == 0:
                t.raw(pure.ev_pw2s(uni, g, pwk))
                t.raw(pure.ev_arb(uni, g, pwk))
            else:
                G.password_to_scalar(pwk)
                if g in ("i23", "ed37") or k % 40 == 0:
                    try:
                        G.arbitrary_element(pwk)
                    except Exception:
                        pass
        traces.append(t.to_json())
        t = Trace("soak/%s/after" % g, uni)
        for x in probes:
            t.raw(pure.ev_pw2s(uni, g, x))
            t.raw(pure.ev_arb(uni, g, x))
        traces.append(t.to_json())
    ctx.cov["soak_derivations_per_group"] = 6000 if thorough else 2600

    def classify(t, r):
        return "F7" if all(e["why"].startswith("F7:") for e in r["errs"]) else None
    ctx.validate(traces, uni, what="derivation", classify=classify)
