"""C03 wire format conformance (interop)."""
from framework import *
from drivers import *
import pure

PWS = [b"password", b"", b"\x00", b"pw", b"p" * 55, b"q" * 64, b"r" * 65, b"\x00\x01\xfe\xff", "pässwörd".encode(), b"s" * 200]
IDS = [(b"", b""), (b"alice", b"bob"), (b"bob", b"alice"), (b"ab", b"c"), (b"a", b"bc"), (b"\x00", b"\xff\x00"), (b"i" * 80, b"j")]


def run(ctx):
    thorough = ctx.tier == "thorough"
    # 1. the specification IS the published definition: validate it against the published vectors and constants
    res = run_tlc("big", "Published.tla", "Published.cfg", workers=1)
    if not tlc_ok(res):
        raise MachineryError("Published.tla: the specification disagrees with the published vectors:\n" + strip_cov(res["out"])[-3000:])
    oks = re.findall(r'<<"(\w+OK)", TRUE>>', res["out"])
    ctx.cov["models"].append({"model": "Published (spec vs released vectors: %s)" % ", ".join(oks), "wall_s": round(res["wall"], 1),
                              "states": res.get("states", 0)})
    ctx.cov["states"] += res.get("states", 0)
    ctx.cov["transitions"] += res.get("transitions", 0)
    if len(oks) < 10:
        raise MachineryError("Published.tla evaluated only %s" % oks)
    # 2. the algebra of the definition on a toy group (agreement of the two formulas for K)
    for g in (["i23", "ed37", "i47"] if thorough else ["i23"]):
        consts = dict(toy_consts(g))
        consts.update({"PAIRING": '"AB"', "WSET": "{%s}" % ",".join(map(str, range(toy_order(g)))), "NRESTORE": "1",
                       "ParamSets": "<- MC_ParamSets", "Passwords": "<- MC_Passwords", "IdPairs": "<- MC_IdPairs",
                       "ClassSet": "<- MC_ClassSet", "MaxInst": "3", "MaxRestore": "1",
                       "ScalarChoices": "<- MC_ScalarChoices", "Attacker": "<- MC_Attacker"})
        ctx.mc("MC_Agree", cfg(view="ViewNoLast", spec="SeqSpec", constants=consts, invariants=["Agreement", "KeyOnlyFromCanonical"]),
               label="MC_Agree/sequential[%s, all w,x,y] (K formulas of both roles coincide)" % g)
    # 3. byte-exact start()/finish() on every shipped set, custom seeds, toy groups; fresh and restored
    uni = Universe()
    mp = Mapper(uni)
    traces = []
    sets = [("PEd25519", "Ed25519"), ("P1024", "I1024"), ("P2048", "I2048"), ("P3072", "I3072")]
    for ps, g in sets:
        uni.paramset(ps)
    uni.paramset("PEd25519-custom", grp="Ed25519", M=b"custom M", N=b"custom N", S=b"custom S")
    uni.paramset("P1024-custom", grp="I1024", M=b"M'", N=b"\x00N", S=b"")
    sets += [("PEd25519-custom", "Ed25519"), ("P1024-custom", "I1024")]
    for g in (["i11", "i23", "i263", "i32771", "ed37", "ed109"] if thorough else ["i23", "i32771", "ed37"]):
        uni.paramset("P" + g, grp=g)
        sets.append(("P" + g, g))
    for name, (qb, pb) in (("m80", (33, 80)), ("m256", (160, 256))):
        uni.int_group(name, *medium_group(qb, pb, 2))
        uni.paramset("P" + name, grp=name)
        sets.append(("P" + name, name))
    # custom groups of unusual shape (core.zoo): derivation lengths of several hash blocks plus a partial one (s600:
    # 75 and 91 bytes; m521: 66), q above 2^256, one-byte q, q filling its bytes, safe primes of both residues mod 8
    zl = ["s600", "m521", "q251", "s72a", "q64full", "s136", "s264", "s72b", "m64", "m65"]
    for z in (zl if thorough else zl[:4]):
        uni.paramset("P" + z, grp=z)
        sets.append(("P" + z, z))
    # parameter sets whose blinding elements COINCIDE (legal for custom groups: the published construction maps two
    # seeds to the same element, or the user passes the same seed twice): S = M, S = N, and M = N = S
    for name, (p_, q_, g_) in {"c29": (29, 7, 16), "c179": (179, 89, 4), "c137": (137, 17, 119)}.items():
        uni.int_group(name, p_, q_, g_)
        uni.paramset("P" + name, grp=name)                    # default seeds; S equals M (c29, c137) or N (c179) as elements
        sets.append(("P" + name, name))
    uni.paramset("Pi23-sameseed", grp="i23", M=b"M1", N=b"N1", S=b"M1")
    uni.paramset("Pi263-allsame", grp="i263", M=b"x", N=b"x", S=b"x")
    sets += [("Pi23-sameseed", "i23"), ("Pi263-allsame", "i263")]
    n = 0
    for ps, g in sets:
        q = uni.group(g).order()
        full = g in ("Ed25519", "I1024", "I2048", "I3072") or g in zoo()
        reps = (16 if thorough else 3) if full else (40 if thorough else 10)
        edge = [0, 1, q - 1, (q + 1) // 2]
        for k in range(reps):
            n += 1
            pairing = "AB" if k % 3 else "SS"
            x = edge[k % 4] if k < 4 else ctx.rng.randrange(q)
            y = edge[(k + 1) % 4] if k < 3 else ctx.rng.randrange(q)
            pw = PWS[(k + n) % len(PWS)]
            ids = IDS[(2 * k + n) % len(IDS)]
            idt = ids if pairing == "AB" else (ids[0],)
            r = exchange(uni, "interop/%s/%s/%d" % (ps, pairing, k), pairing, ps, pw, pw, idt, idt,
                         mp.stream_for(g, x, redraws=k % 2, k=k % 3), mp.stream_for(g, y, k=(k + 1) % 3),
                         restoreA=k % 2, restoreB=(k // 2) % 2, consts=(k == 0))
            traces.append(r.json())
            ma = r.msg.get("a")
            want = {"Ed25519": 33, "I1024": 129, "I2048": 257, "I3072": 385}.get(g)
            if want and ma is not None and len(ma) != want:
                ctx.violation("start() message of %s has %d bytes, the published format has %d" % (ps, len(ma), want),
                              {"kind": "length", "ps": ps, "len": len(ma)})
    # very long passwords and identities (kilobytes), on a toy and a shipped set
    big = bytes((i * 11 + 5) % 256 for i in range(66000))
    for ps, g in (("Pi23", "i23"), ("PEd25519", "Ed25519"), ("P1024", "I1024")):
        q = uni.group(g).order()
        for k, (pw, ids) in enumerate([(big[:3000], (b"a", b"b")), (b"pw", (big[:65537], big[:2])), (big[:1025], (big[:1024], big[:4097])),
                                       # whole multiples of block and chunk sizes (64, 4096, 8192, 65536)
                                       (big[:4096], (big[:64], big[:8192])), (big[:64], (big[:4096], big[:128])), (b"pw", (big[:65536], big[:4096]))]):
            if k and not thorough and g != "i23":
                continue
            pairing = "AB" if k % 2 == 0 else "SS"
            idt = ids if pairing == "AB" else (ids[0],)
            r = exchange(uni, "long-inputs/%s/%d" % (ps, k), pairing, ps, pw, pw, idt, idt,
                         mp.stream_for(g, 3 % q), mp.stream_for(g, 5 % q), restoreA=1)
            traces.append(r.json())
    # every way of calling the constructors (positional, keyword, defaults left out - see Trace._construct) with every
    # pattern of empty / non-empty identities: the session is defined by the values bound, not by the call shape
    from core import Trace as _T
    for ps, g in (("Pi23", "i23"), ("PEd25519", "Ed25519")):
        q = uni.group(g).order()
        for shape in range(_T.NSHAPES):
            for k, ids in enumerate([(b"", b"bob"), (b"alice", b""), (b"", b""), (b"al", b"ice")]):
                if g == "Ed25519" and not thorough and (shape + k) % 4:
                    continue
                for pairing in ("AB", "SS"):
                    ca, cb = ("A", "B") if pairing == "AB" else ("S", "S")
                    r = Run("call-shape/%s/%s/shape%d/ids%d" % (ps, pairing, shape, k), uni)
                    idt = ids if pairing == "AB" else ((ids[1] or ids[0]), b"")
                    r.inst["a"] = r.t.new(ca, ps, b"pw-shape", idt[0], idt[1], shape=shape)
                    r.inst["b"] = r.t.new(cb, ps, b"pw-shape", idt[0], idt[1], shape=(shape + 1 + k) % _T.NSHAPES)
                    ma = r.start("a", mp.stream_for(g, 2 % q))
                    mb = r.start("b", mp.stream_for(g, 7 % q))
                    blob = r.serialize("a")
                    if blob is not None and r.restore("a2", ca, ps, blob) is not None and mb is not None:
                        r.finish("a2", mb)
                    if ma is not None:
                        r.finish("b", ma)
                    traces.append(r.json())
    ctx.validate(traces, uni, what="interop exchange")
    # 4. code -> spec: every session the repository's own 43 tests create, validated against the specification
    import subprocess
    out = os.path.join(scratch(), "repo_suite_traces.json")
    env = dict(os.environ, PYTHONPATH=os.path.join(VERIF, "harness") + os.pathsep + os.path.join(REPO, "src"),
               VERIF_TRACE_OUT=out, PYTHONDONTWRITEBYTECODE="1")
    r = subprocess.run(["/venv/bin/python", "-m", "pytest", "-q", "-p", "no:cacheprovider", "-p", "pytest_trace_plugin",
                        os.path.join(REPO, "src", "spake2")], cwd=REPO, env=env, capture_output=True, text=True, timeout=1800)
    if not os.path.exists(out):
        raise MachineryError("tracing the repository's test-suite produced no traces:\n" + (r.stdout + r.stderr)[-2000:])
    doc = json.load(open(out))
    os.unlink(out)

    class Hdr:
        def header(self):
            return {"groups": doc["groups"], "params": doc["params"]}
    ctx.cov["repo_suite"] = {"pytest_summary": (r.stdout.strip().splitlines() or ["?"])[-1], "traces": len(doc["traces"]),
                             "events": sum(len(t["events"]) for t in doc["traces"])}
    if len(doc["traces"]) < 10:
        raise MachineryError("only %d traces recorded from the repository's test-suite" % len(doc["traces"]))
    ctx.validate(doc["traces"], Hdr(), what="repository test-suite session")
