"""C09 wrong role or parameters on restore."""
from framework import *
from drivers import *

FAMILY_KEYS = ["base", "Mdiff", "Ndiff", "Sdiff", "gen", "other"]


def model(ctx, g, g2, g3=None):
    consts = dict(toy_consts(g))
    c2 = toy_consts(g2)
    c3 = toy_consts(g3) if g3 else c2
    consts.update({"T2P": c2["TP"], "T2Q": c2["TQ"], "T2G": c2["TG"], "T2BY": c2["TBY"], "T3P": c3["TP"], "T3G": c3["TG"],
                   "ParamSets": "<- MC_ParamSets", "Passwords": "<- MC_Passwords", "IdPairs": "<- MC_IdPairs",
                   "ClassSet": "<- MC_ClassSet", "MaxInst": "1", "MaxRestore": "0",
                   "ScalarChoices": "<- MC_ScalarChoices", "Attacker": "<- NoAttacker"})
    label = "MC_Restore[%s+%s+%s, 3 saving classes x 7 parameter sets -> 3 classes x 7 sets]" % (g, g2, g3)
    ctx.mc("MC_Restore", cfg(view="ViewNoLast", spec="RestoreSpec", constants=consts, invariants=["RestoreSoundButF6"]), label=label)
    # the design itself admits F6 (generator not fingerprinted): TLC must find it
    res = ctx.mc("MC_Restore", cfg(view="ViewNoLast", spec="RestoreSpec", constants=consts, invariants=["RestoreSound"]),
                 label=label + " strict (F6 expected)", expect_violation="RestoreSound")
    return "RestoreSound" in res["violated"]


def family(uni, g, g2, alt, sameq=None):
    """parameter-set family on the real code; returns {key: psname}"""
    fam = {}
    base = "P" + g
    uni.paramset(base, grp=g)
    M, N, S = [unhx(uni.pdesc[base][k]) for k in "MNS"]
    fam["base"] = base
    G = uni.group(g)
    used = {G.arbitrary_element(x).to_bytes() for x in (M, N, S)} | {G.Zero.to_bytes()}

    def other_seed(seed):
        # a seed whose element really differs (tiny groups: hash collisions, finding F7)
        for k in range(1, 500):
            cand = seed + b"'" * k
            try:
                e = G.arbitrary_element(cand).to_bytes()
            except Exception:
                continue
            if e not in used:
                return cand
        raise MachineryError("no alternative seed")
    for key, kw in (("Mdiff", dict(M=other_seed(M), N=N, S=S)), ("Ndiff", dict(M=M, N=other_seed(N), S=S)),
                    ("Sdiff", dict(M=M, N=N, S=other_seed(S)))):
        name = "P%s-%s" % (g, key)
        uni.paramset(name, grp=g, **kw)
        fam[key] = name
    uni.paramset("P%s-gen" % g, grp=alt, M=M, N=N, S=S)
    fam["gen"] = "P%s-gen" % g
    uni.paramset("P" + g2, grp=g2)
    fam["other"] = "P" + g2
    # equal-but-distinct objects: the same values in another group object / another _Params object / a deep copy.
    # For the specification these ARE the same parameters: state must restore under them (C10) and reproduce the session
    if g in TOY_INT:
        uni.int_group(g + "eq", *TOY_INT[g])
        uni.paramset("P%s-equal" % g, grp=g + "eq", M=M, N=N, S=S)
        fam["equal"] = "P%s-equal" % g
    uni.deepcopy_paramset("P%s-deepcopy" % g, base)
    fam["deepcopy"] = "P%s-deepcopy" % g
    if sameq:       # a different group with the same subgroup order, the same element size and the same seeds
        uni.paramset("P%s-sameq" % g, grp=sameq, M=M, N=N, S=S)
        fam["sameq"] = "P%s-sameq" % g
    return fam


def matrix(ctx, uni, mp, fam, gname, tag, classes="ABS", savekeys=None, restorekeys=None):
    traces, silent = [], []
    q = uni.group(gname).order() if gname else None
    for sk in (savekeys or fam):
        for scls in classes:
            ps = fam[sk]
            g = uni.pdesc[ps]["grp"]
            r = Run("%s/save=%s,%s" % (tag, scls, sk), uni)
            r.new("o", scls, ps, b"pw", b"A", b"B" if scls != "S" else b"")
            m = r.start("o", mp.stream_for(g, ctx.rng.randrange(1, uni.group(g).order())))
            blob = r.serialize("o")
            for rk in (restorekeys or fam):
                for rcls in classes:
                    i = r.restore("r-%s-%s" % (rcls, rk), rcls, fam[rk], blob)
                    if i is not None:
                        got = r.t.objs[i].outbound_message
                        if got != m[1:]:
                            silent.append((scls, sk, rcls, rk, hx(m[1:]), hx(got)))
            traces.append(r.json())
    return traces, silent


def run(ctx):
    thorough = ctx.tier == "thorough"
    f6_in_model = model(ctx, "i23", "i47", "i67")
    if thorough:
        model(ctx, "ed37", "ed53")
        model(ctx, "i263", "i269", "i787")
    uni = Universe()
    mp = Mapper(uni)
    # the same (p,q) with another generator; the same toy curve with another base point
    uni.int_group("i23alt", 23, 11, 4)
    traces, silent = [], []
    fam = family(uni, "i23", "i47", "i23alt", sameq="i67")
    t, s = matrix(ctx, uni, mp, fam, "i23", "toy-i23")
    traces += t
    silent += [("i23",) + x for x in s]
    TOY_CURVES["ed37alt"] = (37, 2, 5, 30)
    fam2 = family(uni, "ed37", "ed53", "ed37alt")
    t, s = matrix(ctx, uni, mp, fam2, "ed37", "toy-ed37")
    traces += t
    silent += [("ed37",) + x for x in s]
    # shipped sets: 4 x 4 sets x 9 class pairs, plus same-group seed variants
    ship = {"PEd25519": "PEd25519", "P1024": "P1024", "P2048": "P2048", "P3072": "P3072"}
    for k in ship:
        uni.paramset(k)
    uni.paramset("P1024-N", grp="I1024", N=b"N'")
    uni.paramset("PEd25519-S", grp="Ed25519", S=b"symmetric'")
    uni.paramset("PEd25519-M", grp="Ed25519", M=b"M'")
    ship.update({"P1024-N": "P1024-N", "PEd25519-S": "PEd25519-S", "PEd25519-M": "PEd25519-M"})
    # equal-but-distinct parameter objects of the shipped sets (a fresh _Params over the same group; a deep copy)
    uni.paramset("P1024-equal", grp="I1024")
    uni.deepcopy_paramset("PEd25519-deepcopy", "PEd25519")
    ship.update({"P1024-equal": "P1024-equal", "PEd25519-deepcopy": "PEd25519-deepcopy"})
    if thorough:
        t, s = matrix(ctx, uni, mp, ship, None, "shipped")
    else:
        t, s = matrix(ctx, uni, mp, ship, None, "shipped", savekeys=["PEd25519", "P1024", "PEd25519-S"],
                      restorekeys=["PEd25519", "P1024", "P2048", "P1024-N", "PEd25519-S", "PEd25519-M", "P1024-equal", "PEd25519-deepcopy"])
    traces += t
    silent += [("shipped",) + x for x in s]
    # the fingerprint comparison itself: state whose hashed_params differs from the right value in one character (every
    # position), by a permutation of aligned chunks, or by the same bit flipped in two chunks (a comparison that sums or
    # XORs words, or looks at a prefix, lets these through) must be refused like any other parameter mismatch
    import json as _json
    for ps, g, cls in [("Pi23", "i23", "A"), ("PEd25519", "Ed25519", "S"), ("P1024", "I1024", "B")]:
        r = Run("fingerprint-mutations/%s/%s" % (g, cls), uni)
        r.new("o", cls, ps, b"pw", b"A", b"B" if cls != "S" else b"")
        r.start("o", mp.stream_for(g, 3))
        blob = r.serialize("o")
        f = _json.loads(blob.decode("ascii"))
        h = f["hashed_params"]
        muts = []
        for i in range(len(h)):
            muts.append(h[:i] + ("0" if h[i] != "0" else "1") + h[i + 1:])
        for size in (1, 2, 4, 8, 16, 32):
            chunks = [h[i:i + size] for i in range(0, len(h), size)]
            for a in range(min(len(chunks), 6)):
                for b in range(a + 1, min(len(chunks), 8)):
                    if chunks[a] != chunks[b]:
                        c2 = list(chunks)
                        c2[a], c2[b] = c2[b], c2[a]
                        muts.append("".join(c2))
            for a, b in ((0, 1), (0, len(chunks) - 1), (1, 2)):           # the same hex digit XOR 1 / XOR 8 in two chunks
                if b >= len(chunks) or a == b:
                    continue
                for bit in (1, 8):
                    c2 = list(chunks)
                    for k in (a, b):
                        c2[k] = "%x" % (int(c2[k][0], 16) ^ bit) + c2[k][1:]
                    muts.append("".join(c2))
        muts += [h[:-2], h + "00", h[2:] + h[:2], h[::-1], "00" * (len(h) // 2), ""]
        n = 0
        for m in dict.fromkeys(muts):
            if m == h:
                continue
            n += 1
            r.t.restore_raw(cls, ps, _json.dumps(dict(f, hashed_params=m)).encode("ascii"))
        ctx.cov["fingerprint_mutations"] = ctx.cov.get("fingerprint_mutations", 0) + n
        traces.append(r.json())
    # many short-lived parameter sets: each is created, used and DROPPED (so that object identities are recycled); state
    # saved under the previous set must be refused under the next one, state saved under a set must restore under it
    sp = load_repo()
    G263 = uni.group("i263")
    r = Run("short-lived-parameter-sets", uni)
    prev = None
    import gc
    for k in range(500 if thorough else 260):
        name = "Ptmp%d" % k
        seeds = dict(M=b"tmpM%d" % k, N=b"tmpN%d" % (k // 2), S=b"tmpS%d" % (k // 3))
        try:
            P = sp.params._Params(G263, **seeds)
        except AssertionError:
            continue                      # a degenerate seed (finding F7)
        uni.params[name] = P
        uni.pdesc[name] = {"grp": "i263", "M": hx(seeds["M"]), "N": hx(seeds["N"]), "S": hx(seeds["S"])}
        cls = "ABS"[(k // 2) % 3]             # two consecutive sets share a class
        r.new("s%d" % k, cls, name, b"pw", b"a", b"b" if cls != "S" else b"")
        r.start("s%d" % k, mp.stream_for("i263", 5 + k % 100))
        blob = r.serialize("s%d" % k)
        if prev is not None and k % 2 == 1:
            r.restore("x%d" % k, cls, name, prev)             # saved under the previous, now dead, parameter set (other M seed)
        if blob is not None and k % 5 == 0:
            r.restore("y%d" % k, cls, name, blob)
        prev = blob
        # drop every reference to the parameter object and to the sessions that hold it
        del uni.params[name]
        for v in [v for v in r.inst if v.endswith("%d" % k)]:
            r.t._peek(r.inst[v])
            r.t.objs.pop(r.inst[v], None)
        del P
        if k % 50 == 0:
            gc.collect()
    traces.append(r.json())
    ctx.validate(traces, uni, what="restore matrix")
    # a restore that silently yields a different outbound message: F6 iff the sets differ only in the generator
    for where, scls, sk0, rcls, rk0, sent, got in silent:
        sk, rk = [{"equal": "base", "deepcopy": "base"}.get(k, k) for k in (sk0, rk0)]   # the same values in another object
        if where != "shipped" and scls == rcls and {sk, rk} & {"gen"} and (sk == "gen") != (rk == "gen") \
                and ({sk, rk} - {"gen"}) <= ({"base"} | ({"Mdiff", "Ndiff"} if scls == "S" else {"Sdiff"})):
            if "F6" in ctx.known:
                ctx.note_known("F6")
                continue
        ctx.violation("from_serialized(%s,%s) of state saved by (%s,%s) on %s silently returns an instance with another outbound message"
                      % (rcls, rk, scls, sk, where), {"kind": "silent-restore", "where": where, "save": [scls, sk],
                                                      "restore": [rcls, rk], "sent": sent, "got": got})
    if f6_in_model and not ctx.known_lines:
        ctx.cov["note"] = "design-level F6 counterexample no longer reproduces on the code"
