"""C11 unbiased sampling, entropy only in start()."""
from framework import *
from drivers import *
import pure

INVS = ["LowBits", "Shape", "Uniform", "Loop"]


def model(ctx, widths, starts, pairw, label):
    ctx.mc("MC_Randrange", cfg(constants={"WIDTHS": "{%s}" % ",".join(map(str, widths)),
                                          "STARTS": "{%s}" % ",".join(map(str, starts)), "PAIRW": str(pairw)},
                               invariants=INVS), label="MC_Randrange[%s]" % label, timeout=7200)


def run(ctx):
    thorough = ctx.tier == "thorough"
    model(ctx, range(1, 257), [0, 3], 8 if thorough else 5, "every width 1..256, every first draw, all two-draw logs for small widths")
    edge2 = [257, 511, 512, 513, 1000, 1023, 1024, 1025, 2047, 2048, 4095, 4096, 4097, 8191, 16384, 32767, 32768, 40000, 65535]
    if thorough:
        model(ctx, range(257, 1025), [0], 0, "every width 257..1024, every first draw")
        model(ctx, edge2[7:], [0, 5], 0, "2-byte edge widths, every first draw")
    else:
        model(ctx, edge2[::2] + [257 + ctx.seed % 60000], [0], 0, "2-byte edge widths, every first draw")
    # every width below 2^16 compositionally: the shape of (mask, byte count) for each width + the mask lemma for every draw
    ctx.mc("MC_Randrange", cfg(constants={"WIDTHS": "<- AllBelow2p16", "STARTS": "{0}", "PAIRW": "0"}, invariants=["Shape", "MaskLemma"]),
           label="MC_Randrange[every width 1..65535: Shape; MaskLemma over all 1- and 2-byte draws]")
    uni = Universe()
    mp = Mapper(uni)
    traces = []
    # the real unbiased_randrange on every first draw
    ws1 = list(range(1, 257)) if thorough else [w for w in range(1, 257) if w <= 40 or w % 3 == ctx.seed % 3 or (w & (w - 1)) == 0 or (w & (w + 1)) == 0]
    for i in range(0, len(ws1), 8):
        t = Trace("randrange-1byte-%d" % ws1[i], uni)
        for w in ws1[i:i + 8]:
            t.raw(pure.ev_rr_table(w % 7, w))
        traces.append(t.to_json())
    ws2 = (list(range(257, 1025, 1)) if thorough else edge2[:13] + [300 + ctx.seed % 3000])
    for w in ws2:
        for lo in range(0, 65536, 16384):
            t = Trace("randrange-2byte-%d-%d" % (w, lo), uni)
            t.raw(pure.ev_rr_table(w % 5, w, lo, lo + 16384))
            traces.append(t.to_json())
    ctx.cov["first_draws_tabulated"] = sum(256 for _ in ws1) + 65536 * len(ws2)
    t = Trace("generate_mask", uni)
    t.raw(pure.ev_mask_table(70000))      # generate_mask for every maxval below 2^16 (and beyond)
    traces.append(t.to_json())
    # big ranges: the shipped q, streams all-zero, all-ones, q-1, q, q+1, just above the mask, forced redraws
    sp = load_repo()
    t = Trace("randrange-big", uni)
    # ... and custom groups of unusual shape: q above 2^256, q filling its bytes exactly, a one-byte q, safe primes
    zl = ["m521", "q64full", "q251", "s600", "s136", "s72a", "m65"]
    for ps, g in [("P1024", "I1024"), ("P2048", "I2048"), ("P3072", "I3072"), ("PEd25519", "Ed25519")] + \
            [("P" + z, z) for z in (zl if thorough else zl[:4])]:
        uni.paramset(ps, grp=g) if g in zoo() else uni.paramset(ps)
        G = uni.group(g)
        q = G.order()
        nb = (q.bit_length() + 7) // 8
        be = lambda n: n.to_bytes(nb, "big")
        top = 1 << q.bit_length()
        streams = [bytes(nb), b"\xff" * nb + bytes(nb), be(q - 1), be(q) + be(q + 1) + be(5), be(q + 1) + be(1),
                   be(min(top, 256 ** nb - 1)) + be(2), b"\xff" * (3 * nb) + be(q - 2), be(1), be((q - 1) // 2)]
        if g != "Ed25519":
            for s in streams:
                t.raw(pure.ev_rr(0, q, s))
            t.raw(pure.ev_rr(10 ** 20, 10 ** 20 + q, be(q - 1)))
            t.raw(pure.ev_rr(1, q, b"\xff" * nb + be(q - 2)))
        # sessions: the scalar used by start() is the sampler's function of the entropy (message and xy_scalar)
        for k, s in enumerate(streams if thorough else streams[:6]):
            cls = "ABS"[k % 3]
            r = Run("entropy/%s/%s/%d" % (g, cls, k), uni)
            script = s if g != "Ed25519" else [bytes(64), b"\xff" * 64, (q - 1).to_bytes(64, "big"), q.to_bytes(64, "big"),
                                                 (q + 1).to_bytes(64, "big"), (2 ** 512 - 1).to_bytes(64, "big"),
                                                 (7 * q + 3).to_bytes(64, "big"), (1).to_bytes(64, "big"), bytes(63) + b"\x02"][k]
            r.new("a", cls, ps, b"pw%d" % k, b"A", b"B" if cls != "S" else b"")
            r.start("a", script)
            blob = r.serialize("a")
            r.finish("a", (b"B" if cls == "A" else b"A" if cls == "B" else b"S") + G.Base.scalarmult(3).to_bytes())
            if blob is not None:
                r.restore("a2", cls, ps, blob)
            traces.append(r.json())
    # widths of special shapes (Mersenne-like, all-ones below the leading byte, exact powers of 256, 8+ bytes wide) with the
    # draws that sit on the acceptance boundary: width-1 (accepted), width and width+1 (rejected, then 0 is accepted),
    # the largest masked value, the leading byte of the width followed by all ones
    shapes = []
    for k in (2, 3, 7, 8, 9, 12, 16, 20, 32, 48):
        shapes += [2 ** (8 * k) - 1, 2 ** (8 * k), 2 ** (8 * k) + 1, 2 ** (8 * k - 3) - 1, 2 ** (8 * k - 1) + 1,
                   (0xe9 << (8 * (k - 1))) | (2 ** (8 * (k - 1)) - 1), (0x37 << (8 * (k - 1))) | (2 ** (8 * (k - 1)) - 2)]
    shapes += [2 ** 61 - 1, 2 ** 89 - 1, 2 ** 127 - 1, 2 ** 521 - 1, 2 ** 255 - 19, 10 ** 30, 3 * 2 ** 70]
    if not thorough:
        shapes = shapes[ctx.seed % 2::2] + [2 ** 61 - 1, 2 ** 127 - 1]
    for i in range(0, len(shapes), 6):
        ts = Trace("randrange-shapes-%d" % i, uni)
        for W in shapes[i:i + 6]:
            nbw = (W.bit_length() + 7) // 8
            bew = lambda n: (n % 256 ** nbw).to_bytes(nbw, "big")
            lead = (W >> (8 * (nbw - 1))) << (8 * (nbw - 1))
            for start in (0, 7):
                ts.raw(pure.ev_rr(start, start + W, bew(W - 1)))
                ts.raw(pure.ev_rr(start, start + W, bew(W) + bew(0)))
                ts.raw(pure.ev_rr(start, start + W, bew(W + 1) + bew(W) + bew(W - 2 if W > 2 else 0)))
                ts.raw(pure.ev_rr(start, start + W, bew(lead | (2 ** (8 * (nbw - 1)) - 1)) + bew(1)))
                ts.raw(pure.ev_rr(start, start + W, b"\xff" * nbw + bew(lead) + bew(0)))
        traces.append(ts.to_json())
    traces.append(t.to_json())
    # toy groups: every scalar from a stream, with 0..2 forced redraws (entropy log validated in every session trace)
    for g in (["i11", "i23", "i263", "ed37"] if thorough else ["i23", "ed37"]):
        ps = "P" + g
        uni.paramset(ps, grp=g)
        q = toy_order(g)
        for x in range(q):
            r = Run("entropy/%s/x%d" % (g, x), uni)
            r.new("a", "ABS"[x % 3], ps, b"pw", b"A", b"B" if x % 3 != 2 else b"")
            r.start("a", mp.stream_for(g, x, redraws=x % 3, k=x % 4))
            r.serialize("a")
            traces.append(r.json())
    # random_scalar called directly (the group API start() uses): the scalar as a function of the bytes served.
    # Toy groups: every residue with several quotients; shipped and zoo groups: structured draws (multiples of the order
    # and their neighbours, runs of ones, single bits) and a volume of pseudo-random draws, so that a hand-written
    # reduction that is wrong on a small fraction of its inputs is met (tables of 500 draws per event)
    import random as _random
    rnd = _random.Random(ctx.seed * 7919 + 11)
    nrs = 0
    for g in (["i11", "i23", "i263", "ed37", "ed53", "ed109"] if thorough else ["i23", "ed37", "ed53"]):
        uni.group(g)
        q = toy_order(g)
        tr = Trace("random-scalar/%s" % g, uni)
        if g.startswith("ed"):
            vals = [k * q + r for r in range(q) for k in (0, 1, 2, 2 ** 252, (2 ** 512 - 1) // q - 1)] + \
                   [2 ** 512 - 1 - j for j in range(2 * q)] + [2 ** k for k in range(0, 512, 9)] + [rnd.getrandbits(512) for _ in range(200)]
            streams = [(v % 2 ** 512).to_bytes(64, "big") for v in vals]
            for k in range(0, len(streams), 400):
                tr.raw(pure.ev_rs_table(uni, g, streams[k:k + 400]))
            for st in streams[:3 * q:q // 2 + 1]:
                tr.raw(pure.ev_rs(uni, g, st))
        else:
            nb = (q.bit_length() + 7) // 8
            streams = [r.to_bytes(nb, "big") for r in range(256 ** nb if nb == 1 else 4096)]
            tr.raw(pure.ev_rs_table(uni, g, streams))
            for r in (0, q - 1, q, 255):
                tr.raw(pure.ev_rs(uni, g, r.to_bytes(nb, "big") + bytes([3]) * nb))
        nrs += len(streams)
        traces.append(tr.to_json())
    big = [("Ed25519", 24000 if not thorough else 400000), ("I1024", 600), ("I2048", 300), ("I3072", 300)] + \
          [(z, 300) for z in (zl if thorough else zl[:4])]
    for g, nrand in big:
        G = uni.group(g)
        q = G.order()
        if g == "Ed25519":
            nb = 64
            vals = [k * q + r for k in (0, 1, 2, 15, 16, 17, 2 ** 252, 2 ** 259 - 1, 2 ** 512 // q - 1, 2 ** 512 // q) for r in (-2, -1, 0, 1, 2)]
            vals += [2 ** k - 1 for k in range(1, 513, 7)] + [2 ** k for k in range(0, 512, 5)] + [(2 ** 512 - 1) ^ (2 ** k) for k in range(0, 512, 11)]
            vals += [(j << 252) + r for j in (1, 2, 255, 2 ** 260 - 1) for r in (0, 1, q - 1, q, 2 ** 252 - 1)]
        else:
            nb = (q.bit_length() + 7) // 8
            top = 1 << q.bit_length()
            vals = [q - 2, q - 1, q, q + 1, 0, 1, top - 1, top, 256 ** nb - 1, q // 2, q ^ 1] + [2 ** k for k in range(0, 8 * nb, 13)]
        streams = [(v % 256 ** nb).to_bytes(nb, "big") for v in vals if v >= 0] + [rnd.getrandbits(8 * nb).to_bytes(nb, "big") for _ in range(nrand)]
        nrs += len(streams)
        per = max(500, -(-len(streams) // 16))
        for k in range(0, len(streams), per):
            tr = Trace("random-scalar/%s/%d" % (g, k), uni)
            for j in range(k, min(k + per, len(streams)), 500):
                tr.raw(pure.ev_rs_table(uni, g, streams[j:min(j + 500, k + per)]))
            traces.append(tr.to_json())
    ctx.cov["random_scalar_draws"] = nrs
    ctx.validate(traces, uni, what="sampler/entropy")
