"""C07 single use over every call history."""
import itertools
from framework import *
from drivers import *

PEER = {"A": b"B", "B": b"A", "S": b"S"}
OWN = {"A": b"A", "B": b"B", "S": b"S"}
NAMED = {"OnlyCallStartOnce", "OnlyCallFinishOnce", "OffSides", "ReflectionThwarted", "SerializedTooEarly",
         "WrongSideSerialized", "WrongGroupError"}
INVS = ["AtMostOneMsg", "AtMostOneKey", "EntropyOnlyInStart", "NoMsgFromRestored", "SameScalarInLineage",
        "NeverKeyForWrongSide", "KeyOnlyFromCanonical"]


def consts_for(g, cls, w, x, depth, emit, maxrest):
    c = dict(toy_consts(g))
    c.update({"CLS": '"%s"' % cls, "W": str(w), "X": str(x), "DEPTH": str(depth), "EMIT": "TRUE" if emit else "FALSE",
              "ParamSets": "{}", "Passwords": "{}", "IdPairs": "{}", "ClassSet": "{}", "MaxInst": "99",
              "MaxRestore": str(maxrest), "ScalarChoices": "<- AllScalars", "Attacker": "<- NoAttacker"})
    return c


def graph(ctx, g, cls, w, x, maxrest):
    """no history variable: the finite state graph = histories of unbounded length"""
    c = consts_for(g, cls, w, x, 0, False, maxrest)
    label = "MC_History/graph[%s,%s,w=%d,x=%d,restores<=%d,unbounded length]" % (g, cls, w, x, maxrest)
    # RefinesLifecycle: every step is a step of the value-free Lifecycle machine (whose properties are inductive)
    ctx.mc("MC_History", cfg(spec="HSpec", constants=c, invariants=INVS + ["LifecycleInv"],
                             properties=["ScalarStable", "RefinesLifecycle"]), label=label)
    ws = ["NoWitnessKeyAfterFailure"]
    ctx.witness("MC_History", cfg(spec="HSpec", constants=c, invariants=ws), ws, label=label)


def behaviours(ctx, g, cls, w, x, depth):
    """every history of length `depth` with the outcome classes the specification allows"""
    c = consts_for(g, cls, w, x, depth, True, depth)
    # one worker: the behaviours are printed by TLC, and lines printed by several workers could interleave
    res = ctx.mc("MC_History", cfg(spec="HSpec", constants=c, invariants=INVS + ["Emit"]),
                 label="MC_History/paths[%s,%s,w=%d,x=%d,depth=%d]" % (g, cls, w, x, depth), workers=1)
    allowed = {}
    for m in re.finditer(r'^"HIST (.*)"$', res["out"], re.M):
        h = json.loads(json.loads('"' + m.group(1) + '"'))
        letters = tuple(s[0] for s in h)
        allowed.setdefault(letters, set()).add(tuple(s[1] for s in h))
    if len(allowed) != 10 ** depth:
        raise MachineryError("expected %d histories from TLC, got %d" % (10 ** depth, len(allowed)))
    return allowed


def replay_history(uni, mp, g, ps, cls, w, x, letters, name):
    G = uni.group(g)
    q = G.order()
    r = Run(name, uni)
    r.new("c", cls, ps, mp.pw_for(g, w), b"a", b"b" if cls != "S" else b"")
    cur, n, classes = "c", 0, []
    zero = G.Zero.to_bytes()
    for l in letters:
        o = r.t.objs[r.inst[cur]]
        own = r.t.own(r.inst[cur])
        valid = next(G.Base.scalarmult(k).to_bytes() for k in range(1, q) if G.Base.scalarmult(k).to_bytes() != own)
        if l == "start":
            r.start(cur, mp.stream_for(g, x))
        elif l == "start_fail":
            r.start(cur, mp.stream_for(g, x), fail_after=0)
        elif l == "serialize":
            r.serialize(cur)
        elif l == "restore":
            blob = r.serialize(cur)
            if blob is not None:
                n += 1
                if r.restore("c%d" % n, cls, ps, blob) is not None:
                    cur = "c%d" % n
        else:
            body = {"fin_valid": valid, "fin_own": valid, "fin_unknown": valid, "fin_reflect": own,
                    "fin_undec": valid + b"\x00", "fin_ident": zero}[l]
            side = OWN[cls] if l == "fin_own" else b"C" if l == "fin_unknown" else PEER[cls]
            r.finish(cur, side + body)
    # outcome class per letter (a restore letter is serialize [+ restore])
    evs = [e for e in r.t.events if e["op"] not in ("new", "peek")]
    k = 0
    for l in letters:
        e = evs[k]
        k += 1
        out = e["out"]
        c = out["v"] if out["t"] == "err" else out["t"]
        if l == "restore" and out["t"] == "blob":
            k += 1
        classes.append(c)
    return r.json(), tuple(classes)


def class_matches(real, spec):
    return all(s == r or (s == "Rejected" and r not in ("msg", "key", "blob", "inst")) for r, s in zip(real, spec))


def lifecycle_induction(ctx):
    """Histories of ANY length: Lifecycle.tla (the flags-and-counters skeleton that Spake2.tla refines, see
    RefinesLifecycle above) has an inductive invariant implying the counting properties of C07/C11; Apalache
    discharges base case, induction step and IndInv => Safety, and must find the counterexample when a second
    message is allowed (vacuity guard).  Recorded in the evidence; not decisive (TLC on the bounded models and the
    trace validation decide), so an unavailable apalache-mc does not break the check."""
    import subprocess, shutil as _sh
    work = os.path.join(scratch(), "apalache")
    os.makedirs(work, exist_ok=True)
    for f in ("Lifecycle.tla", "Lifecycle_apa.tla"):
        _sh.copy(os.path.join(VERIF, "spec", f), work)
    runs = [("base: LInit => IndInv", ["--init=LInit", "--inv=IndInv", "--length=0", "--next=LNext"], False),
            ("step: IndInv /\\ LNext => IndInv'", ["--init=IndInit", "--inv=IndInv", "--length=1", "--next=LNext"], False),
            ("IndInv => Safety", ["--init=IndInit", "--inv=Safety", "--length=0", "--next=LNext"], False),
            ("action invariant: IndInv /\\ LNext => the scalar of a started instance is unchanged",
             ["--init=IndInit", "--inv=ScalarNeverChanges", "--length=1", "--next=LNext"], False),
            ("guard: a second message breaks the induction", ["--init=IndInit", "--inv=IndInv", "--length=1", "--next=BadNext"], True),
            ("guard: re-drawing the scalar of a restored instance breaks ScalarNeverChanges",
             ["--init=IndInit", "--inv=ScalarNeverChanges", "--length=1", "--next=BadNext2"], True),
            ("guard: a failed start() that leaves a scalar behind breaks the induction",
             ["--init=IndInit", "--inv=IndInv", "--length=1", "--next=BadNext3"], True)]
    res = {}
    try:
        for name, args, expect_cex in runs:
            r = subprocess.run(["apalache-mc", "check"] + args + ["--out-dir=" + os.path.join(work, "out"), "Lifecycle_apa.tla"],
                               cwd=work, capture_output=True, text=True, timeout=900,
                               env=dict(os.environ, JVM_ARGS="-Xmx4g", TMPDIR=work))
            out = r.stdout + r.stderr
            ok, cex = "EXITCODE: OK" in out, "EXITCODE: ERROR (12)" in out
            res[name] = "holds" if ok else "counterexample" if cex else "no verdict"
            if (ok or cex) and cex != expect_cex:
                raise MachineryError("Apalache: '%s' gave %s\n%s" % (name, res[name], out[-1500:]))
    except (OSError, subprocess.TimeoutExpired) as e:
        res["status"] = "apalache-mc unavailable: %s" % type(e).__name__
    ctx.cov["lifecycle_inductive_invariant_apalache"] = res
    _sh.rmtree(work, True)


def run(ctx):
    thorough = ctx.tier == "thorough"
    lifecycle_induction(ctx)
    for g, cls, r in ([("i11", c, 3) for c in "ABS"] + [("ed37", c, 2) for c in "ABS"] if thorough
                      else [("i11", "A", 2), ("i11", "S", 1), ("ed37", "B", 1)]):
        graph(ctx, g, cls, 1, 2, r)
    uni = Universe()
    mp = Mapper(uni)
    traces = []
    plan = ([("i11", c, 5) for c in "ABS"] + [("ed37", c, 4) for c in "ABS"] if thorough
            else [("i11", "A", 4), ("i11", "B", 3), ("i11", "S", 3), ("ed37", "S", 3), ("ed37", "A", 3)])
    mism = []
    for g, cls, depth in plan:
        ps = "P" + g
        uni.paramset(ps, grp=g)
        w, x = 1, 2
        allowed = behaviours(ctx, g, cls, w, x, depth)
        for letters, specs in allowed.items():
            tr, classes = replay_history(uni, mp, g, ps, cls, w, x, letters, "%s/%s/%s" % (g, cls, ",".join(letters)))
            traces.append(tr)
            if not any(class_matches(classes, s) for s in specs):
                mism.append((g, cls, letters, classes, sorted(specs)))
        ctx.cov["histories_replayed"] = ctx.cov.get("histories_replayed", 0) + len(allowed)
    for g, cls, letters, classes, specs in mism[:10]:
        ctx.violation("history %s on %s/%s: outcome classes %s, specification allows %s" % (",".join(letters), g, cls, classes, specs),
                      {"kind": "history", "group": g, "cls": cls, "letters": letters, "observed": classes, "allowed": specs})
    # random deeper histories on the shipped sets
    letters9 = ["start", "fin_valid", "fin_own", "fin_unknown", "fin_reflect", "fin_undec", "fin_ident", "serialize", "restore",
                "start_fail"]
    for ps, g in [("PEd25519", "Ed25519"), ("P1024", "I1024"), ("P2048", "I2048"), ("P3072", "I3072")]:
        uni.paramset(ps)
        for k in range(24 if thorough else 4):
            cls = "ABS"[k % 3]
            ls = ["start"] * (k % 2) + [ctx.rng.choice(letters9) for _ in range(8 if thorough else 6)]
            pw = b"pw-%d" % k
            G = uni.group(g)
            r = Run("shipped/%s/%s/%s" % (g, cls, ",".join(ls)), uni)
            r.new("c", cls, ps, pw, b"a", b"b" if cls != "S" else b"")
            cur, n = "c", 0
            for l in ls:
                o = r.t.objs[r.inst[cur]]
                own = r.t.own(r.inst[cur])
                valid = G.Base.scalarmult(5 + k).to_bytes()
                if l in ("start", "start_fail"):
                    # start_fail: the entropy function raises - at once, or (integer groups, k odd) after a rejected draw
                    r.start(cur, mp.stream_for(g, ctx.rng.randrange(G.order()), redraws=k % 2),
                            fail_after=None if l == "start" else k % 2 if g != "Ed25519" else 0)
                elif l == "serialize":
                    r.serialize(cur)
                elif l == "restore":
                    blob = r.serialize(cur)
                    if blob is not None:
                        n += 1
                        if r.restore("c%d" % n, cls, ps, blob) is not None:
                            cur = "c%d" % n
                else:
                    body = {"fin_valid": valid, "fin_own": valid, "fin_unknown": valid, "fin_reflect": own,
                            "fin_undec": valid + b"\x00", "fin_ident": G.Zero.to_bytes()}[l]
                    side = OWN[cls] if l == "fin_own" else b"C" if l == "fin_unknown" else PEER[cls]
                    r.finish(cur, side + body)
            traces.append(r.json())
    # randomised API driver: several sessions, honest / tampered / foreign messages, restores under right and wrong
    # class / parameters, mutated and malformed state
    import fuzz
    toy_sets = []
    for g in ("i23", "ed37", "i263"):
        uni.paramset("P" + g, grp=g)
        toy_sets.append(("P" + g, g))
    uni.paramset("Pi23-alt", grp="i23", M=b"x", N=b"y", S=b"z")
    toy_sets.append(("Pi23-alt", "i23"))
    ft = fuzz.fuzz_traces(ctx.rng, uni, mp, toy_sets, 3000 if thorough else 300, "fuzz-toy", 14)
    ship_sets = [("PEd25519", "Ed25519"), ("P1024", "I1024"), ("P2048", "I2048"), ("P3072", "I3072")]
    ft += fuzz.fuzz_traces(ctx.rng, uni, mp, ship_sets, 120 if thorough else 6, "fuzz-shipped", 10)
    ctx.cov["random_api_traces"] = len(ft)
    traces += ft
    ctx.validate(traces, uni, what="call history")
