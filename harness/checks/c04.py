"""C04 the message hides the password."""
from framework import *
from drivers import *
import pure

INVS = ["MsgBijective", "MsgIgnoresIds", "MsgDependsOnPwOnlyViaW", "Unblinded"]


def run(ctx):
    thorough = ctx.tier == "thorough"
    for g in (["i11", "i23", "i31", "i43", "i47", "i59", "i71", "i263", "ed37", "ed53", "ed109"] if thorough else ["i11", "i23", "i59", "ed37", "ed53"]):
        ctx.mc("MC_Uniform", cfg(constants=toy_consts(g), invariants=INVS),
               label="MC_Uniform[%s: every class x every password class x every scalar]" % g)
    uni = Universe()
    mp = Mapper(uni)
    traces = []
    for g in (["i11", "i23", "i47", "ed37", "ed53", "i263"] if thorough else ["i23", "ed37"]):
        ps = "P" + g
        uni.paramset(ps, grp=g)
        q = toy_order(g)
        ws = range(q) if q <= 29 or thorough and q <= 67 else [0, 1, q - 1, ctx.rng.randrange(q)]
        for cls in "ABS":
            for w in ws:
                for tag in ((0, 1) if w in (0, 1) else (0,)):
                    pw = mp.pw_for(g, w, tag)
                    r = Run("%s/%s/w%d.%d" % (g, cls, w, tag), uni)
                    msgs = []
                    for x in range(q):
                        ids = [(b"", b""), (b"alice", b"bob"), (b"\x00", b"\xff")][(x + w) % 3]
                        r.new("s%d" % x, cls, ps, pw, ids[0], ids[1] if cls != "S" else b"")
                        msgs.append(r.start("s%d" % x, mp.stream_for(g, x, redraws=x % 2, k=x % 3)))
                    r.t.raw({"op": "msg_table", "ps": ps, "cls": cls, "pw": hx(pw), "msgs": [hx(m) if m is not None else "" for m in msgs], "w": q})
                    traces.append(r.json())
    ctx.cov["message_tables"] = len(traces)
    # full size: message - w.M = x.G for edge and random scalars (byte-exact start() validation), ids vary
    pws = [b"", b"pw", b"password", b"\x00\x01\xfe\xff", b"p" * 70]
    for ps, g in [("PEd25519", "Ed25519"), ("P1024", "I1024"), ("P2048", "I2048"), ("P3072", "I3072")]:
        uni.paramset(ps)
        q = uni.group(g).order()
        xs = [0, 1, 2, q - 1, q - 2, (q - 1) // 2, 2 ** 64] + [ctx.rng.randrange(q) for _ in range(12 if thorough else 2)]
        r = Run("fullsize/" + g, uni)
        for k, x in enumerate(xs):
            cls = "ABS"[k % 3]
            for j, ids in enumerate([(b"", b""), (b"idA", b"idB")] if k < 3 or thorough else [(b"x", b"y")]):
                r.new("s%d.%d" % (k, j), cls, ps, pws[k % len(pws)], ids[0], ids[1] if cls != "S" else b"")
                r.start("s%d.%d" % (k, j), mp.stream_for(g, x, redraws=k % 2, k=k % 3))
        traces.append(r.json())
    ctx.validate(traces, uni, what="message table")
