"""C01 key agreement."""
from framework import *
from drivers import *

INVS = ["TypeOK", "Agreement", "AtMostOneMsg", "AtMostOneKey", "EntropyOnlyInStart", "RestoreEquivalent",
        "NeverKeyForWrongSide", "KeyOnlyFromCanonical"]
# (group, password classes (None = all), instances, restores): every interleaving
QUICK_INTERLEAVED = [("i11", [1], 3, 1)]
THOROUGH_INTERLEAVED = [("i11", None, 4, 2), ("ed37", [0, 1], 3, 1), ("i23", [0, 1, 10], 3, 1)]
# (group, password classes, restores of end 1): one schedule, all scalar pairs
QUICK_SEQ = [("i11", None, 1), ("i23", None, 1), ("ed37", None, 1), ("i263", [0, 1, 130], 0)]
THOROUGH_SEQ = [(g, None, r) for g in ("i11", "i23", "i31", "i43", "i47", "i59", "i71", "ed37", "ed53", "ed109") for r in (0, 2)] + \
               [("i263", None, 0), ("i269", [0, 1, 66, 5], 1), ("i1019", [0, 1, 508], 0), ("i32771", [0, 1, 112], 1),
                ("ed149", None, 1), ("ed1013", [0, 1, 130], 0)]


def consts_for(g, pairing, wset, maxinst, maxrest, nrestore=0):
    q = toy_order(g)
    wset = wset if wset is not None else list(range(q))
    consts = dict(toy_consts(g))
    consts.update({"PAIRING": '"%s"' % pairing, "WSET": "{%s}" % ",".join(map(str, wset)),
                   "NRESTORE": str(nrestore),
                   "ParamSets": "<- MC_ParamSets", "Passwords": "<- MC_Passwords", "IdPairs": "<- MC_IdPairs",
                   "ClassSet": "<- MC_ClassSet", "MaxInst": str(maxinst), "MaxRestore": str(maxrest),
                   "ScalarChoices": "<- MC_ScalarChoices", "Attacker": "<- MC_Attacker"})
    return consts, wset


def interleaved(ctx, g, wset, maxinst, maxrest):
    for pairing in ("AB", "SS"):
        consts, wset_ = consts_for(g, pairing, wset, maxinst, maxrest)
        res = ctx.mc("MC_Agree", cfg(view="ViewNoLast", constants=consts, constraints=["OneExchange"], invariants=INVS + ["LifecycleInv"],
                                     properties=["ScalarStable", "RefinesLifecycle"]),
                     label="MC_Agree/interleaved[%s,%s,|w|=%d,inst<=%d,restores<=%d]" % (g, pairing, len(wset_), maxinst, maxrest),
                     coverage=(g == "i11" and len(wset_) <= 1 and pairing == "AB"))
        if g == "i11" and len(wset_) <= 1 and pairing == "AB":
            ctx.require_actions(res, ["New", "DoStart", "DoFinish", "DoSerialize", "DoRestore"])


def sequential(ctx, g, wset, nrestore, witness):
    for pairing in ("AB", "SS"):
        consts, wset_ = consts_for(g, pairing, wset, 2 + nrestore, nrestore, nrestore)
        label = "MC_Agree/sequential[%s,%s,|w|=%d,all x,y,restores=%d]" % (g, pairing, len(wset_), nrestore)
        ctx.mc("MC_Agree", cfg(view="ViewNoLast", spec="SeqSpec", constants=consts, invariants=INVS, properties=["ScalarStable"]),
               label=label, coverage=False)
        if witness:
            # more specific witnesses first: TLC reports one violated invariant per state
            ws = (["NoWitnessIdentityRefused"] if g in TOY_CURVES else []) + ["NoWitnessReflection"] + \
                (["NoWitnessAgreementAfterRestore"] if nrestore else ["NoWitnessAgreement"])
            ctx.witness("MC_Agree", cfg(view="ViewNoLast", spec="SeqSpec", constants=consts, invariants=ws), ws, label=label)


def toy_replay(ctx, uni, mp, g, frac):
    """every (pairing, w, x, y) of a toy group on the real code, with a
    restore schedule that varies with the case"""
    q = toy_order(g)
    ps = "P" + g
    uni.paramset(ps, grp=g)
    traces = []
    n = 0
    for pairing in ("AB", "SS"):
        for w in range(q):
            for x in range(q):
                for y in range(q):
                    n += 1
                    if frac < 1.0 and ctx.rng.random() >= frac:
                        continue
                    pw = mp.pw_for(g, w)
                    sched = (w + x + 2 * y + n) % 4
                    r = exchange(uni, "%s/%s/w%d/x%d/y%d" % (g, pairing, w, x, y), pairing, ps, pw, pw,
                                 (b"a", b"b") if pairing == "AB" else (b"s",), (b"a", b"b") if pairing == "AB" else (b"s",),
                                 mp.stream_for(g, x, redraws=(x + y) % 2), mp.stream_for(g, y, k=y % 3),
                                 restoreA=sched % 2, restoreB=sched // 2)
                    traces.append(r.json())
    return traces


def tlaps_agreement(ctx):
    """The algebra of C01 for EVERY group: a TLAPS proof (spec/proofs/AgreementProof.tla) over the group laws that
    MC_Axioms checks for the specification's operations and C13 validates for the code.  Complementary to TLC, which
    enumerates toy groups only; recorded in the evidence, not decisive for the verdict (if tlapm is unavailable the
    TLC parts still decide)."""
    import subprocess, shutil as _sh
    work = os.path.join(scratch(), "tlaps")
    os.makedirs(work, exist_ok=True)
    _sh.copy(os.path.join(VERIF, "spec", "proofs", "AgreementProof.tla"), work)
    try:
        r = subprocess.run(["tlapm", "--cleanfp", "AgreementProof.tla"], cwd=work, capture_output=True, text=True, timeout=600)
        out = r.stdout + r.stderr
        m = re.search(r"All (\d+) obligations proved", out)
        ctx.cov["tlaps_agreement_lemma"] = {"obligations_proved": int(m.group(1))} if m else {"status": "not proved", "output": out[-400:]}
        if not m and "obligation" in out:
            raise MachineryError("TLAPS no longer proves spec/proofs/AgreementProof.tla:\n" + out[-1500:])
    except (OSError, subprocess.TimeoutExpired) as e:
        ctx.cov["tlaps_agreement_lemma"] = {"status": "tlapm unavailable: %s" % type(e).__name__}


def run(ctx):
    thorough = ctx.tier == "thorough"
    tlaps_agreement(ctx)
    for m in (THOROUGH_INTERLEAVED if thorough else QUICK_INTERLEAVED):
        interleaved(ctx, *m)
    for m in (THOROUGH_SEQ if thorough else QUICK_SEQ):
        sequential(ctx, *m, witness=(m[0] in ("i11", "ed37") and m[2] > 0))
    # the whole state machine with an active attacker, random simulation: every invariant on every sampled state
    for g in (["i23", "ed37"] if thorough else ["i23"]):
        consts = dict(toy_consts(g))
        consts.update({"ParamSets": "<- MC_ParamSets", "Passwords": "<- MC_Passwords", "IdPairs": "<- MC_IdPairs",
                       "ClassSet": "<- MC_ClassSet", "MaxInst": "6", "MaxRestore": "3",
                       "ScalarChoices": "<- MC_ScalarChoices", "Attacker": "<- MC_Attacker"})
        # SpecF: the same machine with entropy functions that may raise (Spake2!StartFails)
        ctx.mc("MC_Big", cfg(spec="SpecF", constants=consts, invariants=["TypeOK", "Agreement", "NoAgreementButFindings", "AtMostOneMsg", "AtMostOneKey",
                                                           "EntropyOnlyInStart", "NeverKeyForWrongSide", "KeyOnlyFromCanonical",
                                                           "RestoreEquivalent", "LifecycleInv"], properties=["ScalarStable", "RefinesLifecycle"]),
               label="MC_Big/simulate[%s, 6 instances, 3 restores, attacker, failing entropy]" % g,
               simulate="num=%d" % (150 if thorough else 12), extra=["-depth", "30", "-seed", str(ctx.seed + 1)], timeout=3000)
    uni = Universe()
    mp = Mapper(uni)
    traces = []
    for g, frac in ([("i11", 1.0), ("i23", 1.0), ("ed37", 1.0), ("i31", 1.0), ("i43", 1.0), ("i71", 1.0), ("ed53", 1.0),
                     ("i47", 0.2), ("ed109", 0.5)] if thorough else [("i11", 1.0), ("ed37", 1.0), ("i23", 0.25)]):
        traces += toy_replay(ctx, uni, mp, g, frac)
    # shipped parameter sets and custom seeds: edge-scalar grid x password/identity list, with and without restore.
    # Includes x = 0 / y = 0 (the element sent is w*M resp. w*N, the intermediate Y* - w*N is the identity) and x = q-1.
    pws = [b"", b"\x00", b"password", b"p" * 65, b"\x00\x01\xfe\xff", "pässwörd".encode(), b"q" * 200]
    idl = [(b"", b""), (b"alice", b"bob"), (b"\x00", b"\xff\x00"), (b"i" * 70, b"j")]
    sets = [("PEd25519", "Ed25519"), ("P1024", "I1024"), ("P2048", "I2048"), ("P3072", "I3072")]
    for ps, g in sets:
        uni.paramset(ps)
    uni.paramset("P2048-custom", grp="I2048", M=b"m", N=b"n", S=b"s")
    sets.append(("P2048-custom", "I2048"))
    # custom medium-size groups ("any valid prime-order group passed as parameters"): element and scalar widths that
    # are neither toy nor shipped (9/5 bytes, 16/8 bytes, 33/32 bytes)
    for name, (qb, pb) in (("m72", (40, 72)), ("m128", (64, 128)), ("m264", (256, 264))):
        uni.int_group(name, *medium_group(qb, pb, 1 + ctx.seed % 3))
        uni.paramset("P" + name, grp=name)
        sets.append(("P" + name, name))
    for ps, g in sets:
        q = uni.group(g).order()
        edge = [0, 1, 2, q - 1, q - 2, (q - 1) // 2, (q + 1) // 2, 2 ** 64 % q]
        grid = [(x, y) for x in edge for y in edge] if thorough else \
            [(0, 0), (0, 1), (1, 0), (q - 1, 1), (1, q - 1), (q - 1, q - 1), (0, q - 1), (2, (q + 1) // 2)]
        grid += [(ctx.rng.randrange(q), ctx.rng.randrange(q)) for _ in range(30 if thorough else 2)]
        if ps == "P2048-custom" and not thorough:
            grid = grid[:3]
        for k, (x, y) in enumerate(grid):
            pairing = "AB" if k % 3 else "SS"
            ids = idl[k % len(idl)] if pairing == "AB" else (idl[k % len(idl)][0],)
            pw = pws[k % len(pws)]
            r = exchange(uni, "shipped/%s/%s/%d" % (ps, pairing, k), pairing, ps, pw, pw, ids, ids,
                         mp.stream_for(g, x, redraws=k % 2, k=k % 3), mp.stream_for(g, y, k=(k + 1) % 3),
                         restoreA=k % 2, restoreB=(k // 2) % 2)
            traces.append(r.json())
    # the two ends hold EQUAL BUT DISTINCT parameter objects (as two processes always do): a fresh _Params over the same
    # group, a deep copy with its own group object, a second IntegerGroup with the same numbers
    uni.paramset("P1024-equal", grp="I1024")
    uni.deepcopy_paramset("PEd25519-deepcopy", "PEd25519")
    uni.paramset("Pi23", grp="i23")
    uni.int_group("i23eq", *TOY_INT["i23"])
    uni.paramset("Pi23-equal", grp="i23eq", **{k: unhx(uni.pdesc["Pi23"][k]) for k in "MNS"})
    uni.deepcopy_paramset("P2048-deepcopy", "P2048")
    for psA, psB, g in [("P1024", "P1024-equal", "I1024"), ("PEd25519", "PEd25519-deepcopy", "Ed25519"), ("Pi23", "Pi23-equal", "i23"),
                        ("P2048-deepcopy", "P2048", "I2048")]:
        q = uni.group(g).order()
        for k, pairing in enumerate(["AB", "SS", "AB"]):
            ids = (b"alice", b"bob") if pairing == "AB" else (b"sym",)
            r = exchange(uni, "equal-objects/%s/%s/%d" % (psA, pairing, k), pairing, psA, b"pw", b"pw", ids, ids,
                         mp.stream_for(g, (3 + k) % q), mp.stream_for(g, (5 + 2 * k) % q), psB=psB, restoreA=k % 2, restoreB=(k + 1) % 2)
            traces.append(r.json())
    ctx.validate(traces, uni, what="exchange")
