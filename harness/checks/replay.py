"""./check <id> --replay <path>: re-execute a recorded violation against the current working tree."""
import json, os

from framework import *
from drivers import build_universe, reexecute


def run(pid, path):
    p = path if os.path.isabs(path) else os.path.join(os.environ.get("VERIF_OUT", VERIF), path)
    doc = json.load(open(p))
    if doc.get("kind") != "trace":
        print("replay of kind %r: re-running the whole check" % doc.get("kind"))
        import importlib
        mod = importlib.import_module(pid.lower())
        ctx = Ctx(pid, "quick", level=getattr(mod, "LEVEL", "model_checking"))
        mod.run(ctx)
        return ctx.done()
    uni = build_universe(doc["header"])
    tr = reexecute(doc["trace"], uni)
    res, stats = validate_traces([tr], uni.header(), label="replay")
    errs = res[0]["errs"]
    print("replayed %s: %d events re-executed on %s" % (doc["trace"]["name"], len(tr["events"]), REPO))
    if errs:
        print("VIOLATION property=%s replay=%s" % (pid, path))
        for e in errs:
            print("  event %d (%s): %s  expected: %s" % (e["l"], e["op"], e["why"], e["expected"][:300]))
        return 1
    print("no violation: the specification accepts the re-executed trace")
    return 0
