"""C13 group axioms through the element API."""
from framework import *
from drivers import *
import pure

HOWS = ["mul", "dec", "sum", "addzero", "zeroadd", "bigmul", "negmul"]


def model(ctx, g, mode, scalars=()):
    consts = dict(toy_consts(g), MODE='"%s"' % mode, SCALARS="{%s}" % ",".join(str(s) for s in scalars))
    ctx.mc("MC_Axioms", cfg(constants=consts, invariants=["AddAxioms", "MulAxioms"]),
           label="MC_Axioms[%s,%s%s]" % (g, mode, ",n in %s" % list(scalars) if scalars else ""))


def toy_tables(ctx, uni, g, thorough):
    G = uni.group(g)
    q = G.order()
    traces = []
    hows = HOWS if thorough or q <= 11 else HOWS[:5]
    for hi, how in enumerate(hows):
        t = Trace("%s/tables/%s" % (g, how), uni)
        for a in range(q):
            how2 = hows[(hi + a) % len(hows)]
            t.raw(pure.ev_add_row(uni, g, a, how, how2))
            if thorough or a % 3 == hi % 3:
                t.raw(pure.ev_mul_row(uni, g, a, how, -q, 2 * q))
            t.raw(pure.ev_eq_row(uni, g, a, how, how2))
            if a % 4 == hi % 4:       # scalars far outside [-q, 2q]
                for n in (5 * q + 3, -7 * q - 2, 2 ** 70, -(2 ** 65) + a, q * q):
                    t.raw(pure.ev_op(uni, g, "mul", a, n=n, how=how))
            ev = pure.ev_neg_row(uni, g, a, how)
            if ev is not None and (thorough or a % 2 == 0):
                t.raw(ev)
        traces.append(t.to_json())
    return traces


def full_size(ctx, uni, g, thorough):
    G = uni.group(g)
    q = G.order()
    t = []
    rnd = lambda: ctx.rng.randrange(1, q)
    edge = [0, 1, -1, q - 1, q, q + 1, (q - 1) // 2, (q + 1) // 2, 2, 2 ** 16, 2 ** 100, 2 ** 200 % (10 * q), -(2 ** 77), 3 * q + 5,
            2 ** 300 + 1, -(2 ** 300) - 7, q * q, -q * q + 1, 2 * q, -q, -2 * q, 5 * q, 2 ** 255, 2 ** 256 - 1, 2 ** 4096 + 3]
    evs = []
    k1, k2 = rnd(), rnd()
    for how in (["mul", "dec", "addzero", "zeroadd", "sum"] if thorough else ["dec", "addzero"]):
        evs += [pure.ev_op(uni, g, "add", k1, q - k1, how=how),            # P + (-P)
                pure.ev_op(uni, g, "add", k1, k1, how=how),                # P + P
                pure.ev_op(uni, g, "add", k1, 0, how=how),                 # P + Zero
                pure.ev_op(uni, g, "add", 0, k1, how=how),                 # Zero + P
                pure.ev_op(uni, g, "add", k1, k2, how=how)]
        if hasattr(G.Base, "negate"):
            evs += [pure.ev_op(uni, g, "neg", k1, how=how), pure.ev_op(uni, g, "neg", 0, how=how),
                    pure.ev_op(uni, g, "sub", k1, k2, how=how), pure.ev_op(uni, g, "sub", k1, k1, how=how)]
        evs += [pure.ev_op(uni, g, "eq", k1, k1, how=how), pure.ev_op(uni, g, "eq", k1, k2, how=how)]
    for n in (edge if thorough else edge[:9] + edge[12:14] + [edge[14 + ctx.seed % 10], edge[-1]]):
        evs.append(pure.ev_op(uni, g, "mul", k2, n=n, how="dec"))
    evs.append(pure.ev_op(uni, g, "mul", 0, n=5, how="mul"))
    # scalars with special bit patterns (powers of two, all-ones, window boundaries of any windowed method)
    bl = q.bit_length()
    ks = list(range(0, bl + 6)) if thorough else [k for k in range(0, bl + 6) if k % 16 == ctx.seed % 16 or k in (3, 4, 5, 8, bl - 1, bl, bl + 1)]
    for k in ks:
        evs.append(pure.ev_op(uni, g, "mul", k1, n=2 ** k, how="mul"))
        evs.append(pure.ev_op(uni, g, "mul", k2, n=2 ** k - 1, how="dec"))
    for pat in (0x0f0f0f0f0f0f0f0f0f0f0f0f0f0f0f0f, 0xf0f0f0f0f0f0f0f0f0f0f0f0f0f0f0f0f0, int("10" * 60, 2), int("1000" * 40, 2)):
        evs.append(pure.ev_op(uni, g, "mul", k1, n=pat, how="mul"))
    for i in range(16 if thorough else 2):
        evs.append(pure.ev_op(uni, g, "mul", rnd(), n=ctx.rng.randrange(-q, 2 * q), how="sum"))
        evs.append(pure.ev_op(uni, g, "add", rnd(), rnd(), how="bigmul"))
    traces = []
    for i in range(0, len(evs), 6):
        tr = Trace("%s/ops/%d" % (g, i), uni)
        for e in evs[i:i + 6]:
            tr.raw(e)
        traces.append(tr.to_json())
    return traces


def run(ctx):
    thorough = ctx.tier == "thorough"
    for g in (["i11", "i23", "i31", "i43", "i47", "i59", "i71", "ed37", "ed53", "ed109"] if thorough else ["i23", "ed53"]):
        model(ctx, g, "triples")
    # scalars mode is q^2 * (3q+1) * |SCALARS| cases: groups up to q = 29 only
    for g in (["i11", "i23", "i31", "i43", "i47", "i59", "i71", "ed37", "ed53", "ed109"] if thorough else ["i23", "ed37"]):
        q = toy_order(g)
        model(ctx, g, "scalars", scalars=sorted({0, 1, q - 1, q, q + 1, 2 * q, 3 * q, q + 7}))
    uni = Universe()
    traces = []
    for g in (["i11", "i23", "i47", "i263", "ed37", "ed53", "ed109"] if thorough else ["i23", "ed37", "ed53"]):
        uni.group(g)
        traces += toy_tables(ctx, uni, g, thorough)
    zl = ["s136", "m521", "q251", "q64full", "s600", "s72a", "s72b", "m64", "m65", "s264"]
    for ps, g in [("PEd25519", "Ed25519"), ("P1024", "I1024"), ("P2048", "I2048"), ("P3072", "I3072")] + \
            [("P" + z, z) for z in (zl if thorough else zl[:3])]:      # + custom groups of unusual shape (core.zoo)
        uni.paramset(ps, grp=g) if g in zoo() else uni.paramset(ps)
        traces += full_size(ctx, uni, g, thorough)
    # beyond the listed properties, INFORMATIONAL only (never a violation: no listed property speaks about them):
    # type misuse of the API, hash consistency of equal elements, Ed25519 private-key clamping
    info = []
    uni.int_group("i67q3", 67, 3, 29)          # the same field as i67 (q = 11), another prime-order subgroup
    uni.int_group("i23eq", 23, 11, 2)          # equal numbers, another object
    for g, other in (("i23", "i263"), ("ed37", "i23"), ("Ed25519", "I1024"), ("I1024", "I2048"), ("i67", "i67q3"), ("i23", "i23eq")):
        uni.group(g)
        uni.group(other)
        for e in pure.misuse_events(uni, g, other):
            if e["op"] == "misuse" and not e["raised"]:
                info.append("accepted: " + e["what"])
            if e["op"] == "hash_eq" and not e["same"]:
                info.append("equal elements of %s hash differently" % g)
    ctx.cov["informational_api_misuse"] = info or "every misuse of the element API raised; equal elements hash equally"
    if hasattr(uni.basic["Ed25519"], "bytes_to_clamped_scalar"):
        t = Trace("clamp", uni)
        for b in (bytes(32), b"\xff" * 32, bytes(range(32))):
            t.raw(pure.ev_clamp(uni, "Ed25519", b))
        res, _ = validate_traces([t.to_json()], uni.header(), label="C13info")
        ctx.cov["informational_clamp"] = "ok" if not res[0]["errs"] else res[0]["errs"][0]["why"]
    ctx.validate(traces, uni, what="element API")
