"""C17 transcript hash."""
import itertools
from framework import *
from drivers import *
import pure


def run(ctx):
    thorough = ctx.tier == "thorough"
    ctx.mc("MC_Transcript", cfg(constants={"WIDTH": "1", "PWMAX": "2" if thorough else "1"},
                                invariants=["BindsEveryField", "SymmetricOrderFree", "SymmetricBinds", "SymmetricAnyLength", "Layout"]),
           label="MC_Transcript[width 1]", timeout=7200)
    if thorough:
        ctx.mc("MC_Transcript", cfg(constants={"WIDTH": "2", "PWMAX": "1"},
                                    invariants=["BindsEveryField", "SymmetricOrderFree", "SymmetricBinds", "SymmetricAnyLength", "Layout"]),
               label="MC_Transcript[width 2]", timeout=7200)
    uni = Universe()
    traces = []
    alpha = [b"", b"\x00", b"a", b"b", b"ab", b"a\x00", b"bc", b"c"]
    fixed = [b"X", b"Y", b"\x00", b"\xff", b"A", b"B", b"S"]     # incl. values that look like a side marker
    tuples = list(itertools.product(alpha[:5] if not thorough else alpha, alpha, alpha[:4] if not thorough else alpha,
                                    [b"X", b"A", b"S"], fixed, [b"K", b"B"]))
    if not thorough:
        tuples = [t for k, t in enumerate(tuples) if k % 3 == ctx.seed % 3]
    for i in range(0, len(tuples), 300):
        t = Trace("finalize-small-%d" % i, uni)
        for pw, a, b, X, Y, K in tuples[i:i + 300]:
            t.raw(pure.ev_finalize(a, b, X, Y, K, pw))
            t.raw(pure.ev_finalize_sym(a, X, Y, K, pw))
        traces.append(t.to_json())
    ctx.cov["finalize_tuples"] = 2 * len(tuples)
    # symmetric form on messages of DIFFERENT lengths, prefixes of one another, leading zeros, equal messages, empty:
    # min/max is Python's ordering of byte strings, not numeric value, not length
    odd = [b"", b"\x00", b"\x01", b"\x02", b"\x00\x01", b"\x01\x00", b"\x00\x00", b"ab", b"abc", b"b", b"\xff", b"\x00\xff", b"\xff\x00",
           b"a" * 32, b"a" * 33, b"a" * 31 + b"b", b"\x00" + b"a" * 32, b"\x7f", b"\x80"]
    t = Trace("finalize-sym-lengths", uni)
    for m1 in odd:
        for m2 in odd:
            t.raw(pure.ev_finalize_sym(b"s", m1, m2, b"K", b"pw"))
    for m1, m2 in [(b"X", b"YY"), (b"", b"Y"), (b"\x02", b"\x01\x00")]:
        t.raw(pure.ev_finalize(b"a", b"b", m1, m2, b"", b""))
    traces.append(t.to_json())
    # realistic sizes: 32/128/256/384-byte messages, long and binary ids/passwords, prefix/suffix relations
    rb = lambda n: bytes(ctx.rng.randrange(256) for _ in range(n))
    t = Trace("finalize-real", uni)
    for n in (32, 128, 256, 384):
        for k in range(12 if thorough else 3):
            X, Y, K = rb(n), rb(n), rb(n)
            ida, idb, pw = [b"alice", b"", b"ab", b"a", rb(70), b"x" * 64][k % 6], [b"bob", b"", b"c", b"bc", rb(3), b""][k % 6], \
                [b"password", b"", rb(100), b"\x00", b"pw", b"p" * 65][k % 6]
            t.raw(pure.ev_finalize(ida, idb, X, Y, K, pw))
            t.raw(pure.ev_finalize_sym(ida, X, Y, K, pw))
            t.raw(pure.ev_finalize_sym(ida, X, X[:-1] + bytes([X[-1] ^ 1]), K, pw))
            t.raw(pure.ev_finalize(ida + idb, b"", X, Y, K, pw))
            # elements whose own first byte equals a side letter (about 1 in 256 real messages)
            t.raw(pure.ev_finalize(ida, idb, b"A" + X[1:], b"B" + Y[1:], K, pw))
            t.raw(pure.ev_finalize(ida, idb, b"B" + X[1:], b"A" + Y[1:], b"S" + K[1:], pw))
            t.raw(pure.ev_finalize_sym(ida, b"S" + X[1:], b"S" + Y[1:], K, pw))
            t.raw(pure.ev_finalize_sym(ida, b"A" + X[1:], b"S" + Y[1:], b"B" + K[1:], pw))
    traces.append(t.to_json())
    # separator shifts: for EVERY byte value s, the same concatenation-with-separator split at different field
    # boundaries (pw|idA, idA|idB, idS|m1), computed one after the other in one process - every split is a different
    # transcript (any internal joining of fields, cached or not, must keep them apart)
    t = Trace("finalize-separators", uni)
    x, y, z, w = b"al", b"ice", b"bob", b"pw"
    for sv in range(256):
        s = bytes([sv])
        for pw, ida, idb in [(w, x + s + y, z), (w, x, y + s + z), (w + s + x, y, z), (w, x + s + y + s + z, b""), (w + s + x + s + y, z, b"")]:
            t.raw(pure.ev_finalize(ida, idb, b"X" * 4, b"Y" * 4, b"K" * 4, pw))
        for pw, ids, m1 in [(w, x + s + y, z), (w + s + x, y, z), (w, x, y + s + z)]:
            t.raw(pure.ev_finalize_sym(ids, m1, b"Y" * 4, b"K" * 4, pw))
    traces.append(t.to_json())
    # very long arguments
    t = Trace("finalize-long", uni)
    big = bytes((i * 7 + 3) % 256 for i in range(70000))
    for pw, ida, idb in [(big[:5000], b"a", b"b"), (b"pw", big, b"b"), (b"pw", b"a", big[:66000]), (big[:1025], big[:1024], big[:1023])]:
        t.raw(pure.ev_finalize(ida, idb, b"X" * 32, b"Y" * 32, b"K" * 32, pw))
        t.raw(pure.ev_finalize_sym(ida, b"X" * 32, b"Y" * 32, b"K" * 32, pw))
    traces.append(t.to_json())
    # block-boundary lengths in EVERY argument position: SHA-256 blocks (55, 56, 63, 64, 65, 119, 128), powers of two and
    # whole multiples of typical I/O chunk sizes (4096, 8192, 65536) with their neighbours - an implementation that
    # streams or chunks its input is wrong exactly there
    lens = [55, 56, 63, 64, 65, 119, 127, 128, 129, 255, 256, 257, 511, 512, 1023, 1024, 2048, 4095, 4096, 4097, 8191, 8192, 8193,
            12288, 16384, 32768, 65535, 65536, 65537]
    if not thorough:
        lens = [n for k, n in enumerate(lens) if n in (64, 4096, 8192, 65536) or k % 3 == ctx.seed % 3]
    for i in range(0, len(lens), 4):
        t = Trace("finalize-block-lengths-%d" % i, uni)
        for n in lens[i:i + 4]:
            v = big[:n]
            base = [b"a", b"b", b"X" * 32, b"Y" * 32, b"K" * 32, b"pw"]
            for pos in range(6):
                args = list(base)
                args[pos] = v
                t.raw(pure.ev_finalize(*args))
            bases = [b"s", b"X" * 32, b"Y" * 32, b"K" * 32, b"pw"]
            for pos in range(5):
                args = list(bases)
                args[pos] = v
                t.raw(pure.ev_finalize_sym(*args))
        traces.append(t.to_json())
    ctx.validate(traces, uni, what="transcript")
