"""C16 sessions are pure and isolated under any interleaving."""
import queue, sys, threading
from framework import *
from drivers import *

CAST = [("A", 1, 2, 2), ("B", 1, 3, 1), ("S", 2, 1, None), ("S", 2, 4, 3)]   # cls, w, x, peer (as MC_Interleave!Cast)


def schedules(ctx, g, ninst, maxrevive):
    c = dict(toy_consts(g))
    c.update({"NINST": str(ninst), "MAXREVIVE": str(maxrevive), "EMIT": "TRUE", "ParamSets": "{}", "Passwords": "{}",
              "IdPairs": "{}", "ClassSet": "{}", "MaxInst": "9", "MaxRestore": "9", "ScalarChoices": "<- AllScalars",
              "Attacker": "<- NoAttacker"})
    res = ctx.mc("MC_Interleave", cfg(spec="ISpec", constants=c, invariants=["Emit", "Isolated", "ExchangesAgree", "AtMostOneKey",
                                                                              "AtMostOneMsg", "EntropyOnlyInStart", "LifecycleInv"],
                                      properties=["SharedUnchanged", "RefinesLifecycle"]),
                 label="MC_Interleave[%s,%d instances,revives<=%d: every interleaving]" % (g, ninst, maxrevive), workers=1)
    scheds = []
    for m in re.finditer(r'^"SCHED (.*)"$', res["out"], re.M):
        scheds.append([(int(k), c) for k, c in json.loads(json.loads('"' + m.group(1) + '"'))])
    if not scheds:
        raise MachineryError("TLC emitted no schedule")
    return scheds


class Workers:
    """one real thread per cast member; steps are handed over one at a time"""

    def __init__(self, n):
        self.qs = [queue.Queue() for _ in range(n)]
        self.done = queue.Queue()
        self.ths = [threading.Thread(target=self.loop, args=(i,), daemon=True) for i in range(n)]
        for t in self.ths:
            t.start()

    def loop(self, i):
        while True:
            f = self.qs[i].get()
            if f is None:
                return
            try:
                self.done.put((True, f()))
            except BaseException as e:       # noqa
                self.done.put((False, e))

    def run_on(self, i, f):
        self.qs[i].put(f)
        ok, v = self.done.get()
        if not ok:
            raise v
        return v

    def stop(self):
        for q in self.qs:
            q.put(None)


def replay(uni, mp, sched, ninst, sets, name, workers=None):
    """execute one schedule; sets[k] = (parameter set, group) of cast member k"""
    r = Run(name, uni)
    cur = {}
    do = (lambda k, f: workers.run_on(k - 1, f)) if workers else (lambda k, f: f())
    for k in range(1, ninst + 1):
        cls, w, x, peer = CAST[k - 1]
        ps, g = sets[k - 1]
        do(k, lambda: r.new("m%d" % k, cls, ps, mp.pw_for(g, w), b"a", b"b" if cls != "S" else b""))
        cur[k] = "m%d" % k
    nrev = 0
    for k, call in sched:
        cls, w, x, peer = CAST[k - 1]
        peer = peer if peer is not None else (4 if ninst == 4 else 3)
        ps, g = sets[k - 1]
        if call == "start":
            do(k, lambda: r.start(cur[k], mp.stream_for(g, x, redraws=k % 2)))
        elif call == "revive":
            name = "m%d.%d" % (k, nrev)
            nrev += 1

            def rev():
                blob = r.serialize(cur[k])
                return r.restore(name, cls, ps, blob)
            if do(k, rev) is not None:
                cur[k] = name
        else:
            do(k, lambda: r.finish(cur[k], r.msg["m%d" % peer]))
    for ps in sorted({s[0] for s in sets[:ninst]}):
        r.t.consts(ps)
    return r.json()


def free_running(ctx, uni, mp, sets, nthreads, nsessions):
    """threads running complete exchanges concurrently on the shared parameter objects;
    every thread records its own trace (per-thread order only)"""
    old = sys.getswitchinterval()
    sys.setswitchinterval(1e-6)
    out = [None] * nthreads
    seeds = [ctx.rng.randrange(1 << 30) for _ in range(nthreads)]
    barrier = threading.Barrier(nthreads)

    def body(i):
        import random
        rng = random.Random(seeds[i])
        traces = []
        barrier.wait()
        for n in range(nsessions):
            ps, g = sets[(i + n) % len(sets)]
            q = uni.group(g).order()
            pairing = "AB" if (i + n) % 2 else "SS"
            w = rng.randrange(q)
            ids = (b"a%d" % i, b"b") if pairing == "AB" else (b"s%d" % i,)
            r = exchange(uni, "thread%d/%d/%s/%s" % (i, n, ps, pairing), pairing, ps, mp.pw_for(g, w), mp.pw_for(g, w), ids, ids,
                         mp.stream_for(g, rng.randrange(q), redraws=n % 2), mp.stream_for(g, rng.randrange(q)),
                         restoreA=n % 2, restoreB=(n // 2) % 2, consts=(n % 8 == 0))
            traces.append(r.json())
        out[i] = traces
    ths = [threading.Thread(target=body, args=(i,)) for i in range(nthreads)]
    try:
        for t in ths:
            t.start()
        for t in ths:
            t.join()
    finally:
        sys.setswitchinterval(old)
    if any(o is None for o in out):
        raise MachineryError("a worker thread died")
    return [t for o in out for t in o]


def preemption_family(ctx, uni, mp, thorough):
    """Preemption inside calls (harness/preempt.py): exchange 1 is preempted at its k-th library line - for EVERY k on
    the toy integer pairs, for a sample of k where calls are long - by the whole of exchange 2, which runs on another
    thread over the same module-level group and parameter objects (or over another set); and exchange 2 run from
    inside an entropy request of exchange 1 (re-entrant entropy source, same thread)."""
    import preempt
    for z in ("m65", "q251"):
        uni.paramset("P" + z, grp=z)
    T = thorough
    pairs = [("Pi23", "i23", "Pi263", "i263", 10 ** 9 if T else 220), ("Pi263", "i263", "Pi23", "i23", 10 ** 9 if T else 120),
             ("Pi23", "i23", "Pi23", "i23", 10 ** 9 if T else 60),
             ("Pi23", "i23", "Pm65", "m65", 10 ** 9 if T else 120), ("Pm65", "m65", "Pq251", "q251", 10 ** 9 if T else 60),
             ("P3072", "I3072", "P1024", "I1024", 10 ** 9 if T else 40), ("P1024", "I1024", "P2048", "I2048", 400 if T else 30),
             ("Ped37", "ed37", "Pi23", "i23", 1500 if T else 60), ("Ped37", "ed37", "Ped37", "ed37", 1500 if T else 40),
             ("PEd25519", "Ed25519", "P1024", "I1024", 60 if T else 6),
             ("PEd25519", "Ed25519", "PEd25519", "Ed25519", 60 if T else 6)]
    out, npoints, nlines, ndistinct, nmissed = [], 0, 0, 0, 0
    for n, (ps1, g1, ps2, g2, cap) in enumerate(pairs):
        q1, q2 = uni.group(g1).order(), uni.group(g2).order()
        pairing1, pairing2 = ("AB", "SS") if n % 2 == 0 else ("SS", "AB")

        def mk(tag, ps, g, q, pairing, salt):
            ids = (b"a", b"b") if pairing == "AB" else (b"s",)
            pw = b"pw-%d" % salt
            box = []

            def script():
                box.append(exchange(uni, tag, pairing, ps, pw, pw, ids, ids,
                                    mp.stream_for(g, (5 + salt) % q, redraws=1), mp.stream_for(g, (7 + 3 * salt) % q),
                                    restoreA=1, restoreB=0))
            return script, box
        # measured on a second, warm run: the preempted runs that follow are warm too (whatever the library caches)
        s0, b0 = mk("preempt/%s+%s/first" % (ps1, ps2), ps1, g1, q1, pairing1, 1)
        s0()
        out.append(b0[0].json())
        s1, b1 = mk("preempt/%s+%s/alone" % (ps1, ps2), ps1, g1, q1, pairing1, 1)
        lines = preempt.trace_lines(s1)
        out.append(b1[0].json())
        if len(lines) < 20:
            raise MachineryError("preemption driver: the line tracer saw only %d library lines" % len(lines))
        ks, missed = preempt.choose_points(lines, cap, ctx.rng), 0
        nlines += len(lines)
        ndistinct += len(set(lines))
        for k in ks:
            s1, b1 = mk("preempt/%s+%s/k%d/t1" % (ps1, ps2, k), ps1, g1, q1, pairing1, 1)
            s2, b2 = mk("preempt/%s+%s/k%d/t2" % (ps1, ps2, k), ps2, g2, q2, pairing2, 2)
            if not preempt.run_preempted(s1, s2, k):
                missed += 1
            out += [b1[0].json(), b2[0].json()]
        # A point that is not reached (the library executes fewer lines than in the run that was measured: a cache
        # filled by the first run, say) leaves a valid run - script 1, then script 2 - so it is only counted; a tracer
        # that reaches almost nothing is a broken driver
        nmissed += missed
        if missed > len(ks) // 2:
            raise MachineryError("%d of %d preemption points not reached" % (missed, len(ks)))
        npoints += len(ks)
        # re-entrant entropy source: exchange 2 runs inside the first (and, with a forced redraw, the second) entropy
        # request of a start() of exchange 1
        for which in (0, 1):
            r = Run("reentrant/%s+%s/%d" % (ps1, ps2, which), uni)
            ids = (b"a", b"b") if pairing1 == "AB" else (b"s",)
            ca, cb = ("A", "B") if pairing1 == "AB" else ("S", "S")
            r.new("a", ca, ps1, b"pw-r", *ids)
            r.new("b", cb, ps1, b"pw-r", *ids)
            s2, b2 = mk("reentrant/%s+%s/%d/inner" % (ps1, ps2, which), ps2, g2, q2, pairing2, 3)
            ent = r.t.objs[r.inst["a"]].entropy_f
            stream = mp.stream_for(g1, 9 % q1, redraws=1)
            if which == 0:
                ent.hook = s2
            else:                   # inside the request that follows a rejected draw (integer groups); Ed25519: the only one
                nb = uni.group(g1).scalar_size_bytes

                def later(ent=ent, s2=s2):
                    ent.hook = s2
                ent.hook = (lambda: later()) if g1 not in ("Ed25519", "ed37") else s2
            ma = r.start("a", stream)
            mb = r.start("b", mp.stream_for(g1, 4 % q1))
            if ma is not None and mb is not None:
                r.finish("a", mb)
                r.finish("b", ma)
            out.append(r.json())
            if b2:
                out.append(b2[0].json())
    ctx.cov["preemption_points_inside_calls"] = npoints
    ctx.cov["preemption_points_not_reached"] = nmissed
    ctx.cov["preemption_library_lines_executed"] = nlines
    ctx.cov["preemption_distinct_source_lines"] = ndistinct
    return out


def run(ctx):
    thorough = ctx.tier == "thorough"
    uni = Universe()
    mp = Mapper(uni)
    for g in ("i23", "ed37", "i11", "i263"):
        uni.paramset("P" + g, grp=g)
        mp.pw_table(g)                      # fill the caches before any thread runs
    traces = []
    sets = [("Pi23", "i23"), ("Pi23", "i23"), ("Ped37", "ed37"), ("Ped37", "ed37")]
    s3 = schedules(ctx, "i23", 3, 1)
    ctx.cov["schedules_from_tlc"] = len(s3)
    for n, sc in enumerate(s3):
        traces.append(replay(uni, mp, sc, 3, sets, "sched3/%d" % n))
    s4 = schedules(ctx, "i23", 4, 1 if thorough else 0)
    ctx.cov["schedules_from_tlc"] += len(s4)
    pick = s4 if thorough else [s for k, s in enumerate(s4) if k % 4 == ctx.seed % 4]
    for n, sc in enumerate(pick):
        traces.append(replay(uni, mp, sc, 4, sets, "sched4/%d" % n))
    ctx.sample({"schedule_from_tlc": s4[len(s4) // 2]})
    # the same schedules with every cast member on its own thread (hand-over-hand)
    wk = Workers(4)
    try:
        sub = [s for k, s in enumerate(s4) if k % (8 if thorough else 40) == 1]
        for n, sc in enumerate(sub):
            traces.append(replay(uni, mp, sc, 4, [("Pi11", "i11"), ("Pi11", "i11"), ("Pi23", "i23"), ("Pi23", "i23")],
                                 "threads-handover/%d" % n, workers=wk))
        ctx.cov["schedules_on_threads"] = len(sub)
    finally:
        wk.stop()
    # free-running threads on toy groups (calls are short, switches land inside calls)
    fr = free_running(ctx, uni, mp, [("Pi11", "i11"), ("Pi23", "i23"), ("Ped37", "ed37"), ("Pi263", "i263")],
                      16 if thorough else 8, 120 if thorough else 25)
    ctx.cov["free_running_thread_sessions"] = len(fr)
    traces += fr
    # sessions that share a group, a role and a password scalar but NOT the parameter set (different M/N/S seeds),
    # or share everything but the password, or the same password under different roles: sequential and interleaved
    def family_runs(base_ps, g, alt_ps, tag):
        out = []
        pw1, pw2 = (mp.pw_for(g, 1), mp.pw_for(g, 2)) if g in TOY_INT or g in TOY_CURVES else (b"pw-1", b"pw-2")
        q = uni.group(g).order()
        combos = [("AB", base_ps, pw1, "AB", alt_ps, pw1), ("SS", base_ps, pw1, "SS", alt_ps, pw1),
                  ("AB", base_ps, pw1, "AB", base_ps, pw2), ("AB", base_ps, pw1, "SS", base_ps, pw1),
                  ("AB", alt_ps, pw2, "AB", base_ps, pw2)]
        for ci, (p1, ps1, w1, p2, ps2, w2) in enumerate(combos):
            for order in range(4):
                r = Run("%s/%d/order%d" % (tag, ci, order), uni)
                c1 = ("A", "B") if p1 == "AB" else ("S", "S")
                c2 = ("A", "B") if p2 == "AB" else ("S", "S")
                r.new("a1", c1[0], ps1, w1, b"a", b"b" if p1 == "AB" else b"")
                r.new("b1", c1[1], ps1, w1, b"a", b"b" if p1 == "AB" else b"")
                r.new("a2", c2[0], ps2, w2, b"a", b"b" if p2 == "AB" else b"")
                r.new("b2", c2[1], ps2, w2, b"a", b"b" if p2 == "AB" else b"")
                xs = {"a1": 2 % q, "b1": 3 % q, "a2": 2 % q, "b2": 4 % q}
                peer = {"a1": "b1", "b1": "a1", "a2": "b2", "b2": "a2"}
                starts = [["a1", "b1", "a2", "b2"], ["a2", "b2", "a1", "b1"], ["a1", "a2", "b1", "b2"], ["b2", "a1", "b1", "a2"]][order]
                fins = [["a1", "b1", "a2", "b2"], ["a1", "b1", "a2", "b2"], ["b2", "b1", "a2", "a1"], ["a2", "a1", "b2", "b1"]][order]
                if order == 0:          # strictly sequential: exchange 1 completely before exchange 2
                    seq = [("s", "a1"), ("s", "b1"), ("f", "a1"), ("f", "b1"), ("s", "a2"), ("s", "b2"), ("f", "a2"), ("f", "b2")]
                else:
                    seq = [("s", v) for v in starts] + [("f", v) for v in fins]
                for op, v in seq:
                    if op == "s":
                        r.start(v, mp.stream_for(g, xs[v]))
                    else:
                        r.finish(v, r.msg[peer[v]])
                for ps in {ps1, ps2}:
                    r.t.consts(ps)
                out.append(r.json())
        return out
    uni.paramset("Pi23-alt", grp="i23", M=b"M-alt", N=b"N-alt", S=b"S-alt")
    uni.paramset("Ped37-alt", grp="ed37", M=b"M-alt", N=b"N-alt", S=b"S-alt")
    traces += family_runs("Pi23", "i23", "Pi23-alt", "same-group-other-seeds/i23")
    traces += family_runs("Ped37", "ed37", "Ped37-alt", "same-group-other-seeds/ed37")
    for ps in ("PEd25519", "P1024"):
        uni.paramset(ps)
    uni.paramset("P1024-alt", grp="I1024", M=b"M-alt", N=b"N-alt", S=b"S-alt")
    uni.paramset("PEd25519-alt", grp="Ed25519", M=b"M-alt", N=b"N-alt", S=b"S-alt")
    fr2 = family_runs("P1024", "I1024", "P1024-alt", "same-group-other-seeds/I1024")
    fr3 = family_runs("PEd25519", "Ed25519", "PEd25519-alt", "same-group-other-seeds/Ed25519")
    traces += (fr2 + fr3) if thorough else fr2[:8:2] + fr3[1:8:3]
    # soak: a probe exchange is started, then more than a thousand other sessions with distinct passwords are created
    # and started on the SAME parameter objects, then the probe is persisted, revived and finished (bounded caches)
    for ps, g in ([("Pi23", "i23"), ("PEd25519", "Ed25519"), ("Ped37", "ed37")] if thorough else [("Pi23", "i23"), ("PEd25519", "Ed25519")]):
        uni.paramset(ps) if ps.startswith("PEd") else None
        G = uni.group(g)
        q = G.order()
        r = Run("soak-sessions/%s" % ps, uni)
        toy = g in TOY_INT or g in TOY_CURVES
        r.new("a", "A", ps, b"", b"a", b"b")
        r.new("b", "B", ps, b"", b"a", b"b")
        r.new("s", "S", ps, b"probe", b"s", b"")
        ma, mb, ms = r.start("a", mp.stream_for(g, 3 % q)), r.start("b", mp.stream_for(g, 4 % q)), r.start("s", mp.stream_for(g, 2 % q))
        blob_before = r.serialize("a")
        sp = load_repo()
        nbulk = (5000 if thorough else 2200) if toy else (1300 if thorough else 1100)
        for k in range(nbulk):
            cls = (sp.SPAKE2_A, sp.SPAKE2_B, sp.SPAKE2_Symmetric)[k % 3]
            o = cls(b"bulk-%d" % k, params=uni.params[ps], entropy_f=Entropy(mp.stream_for(g, k % q)))
            if toy or k % 25 == 0:
                o.start()
        blob_after = r.serialize("a")
        if blob_before is not None and r.restore("a2", "A", ps, blob_before) is not None:
            r.finish("a2", mb)
        r.finish("b", ma)
        r.finish("s", ms)
        r.t.consts(ps)
        traces.append(r.json())
    # many parameter sets and groups in one process (tables or caches with a capacity), then the first ones again
    many = []
    for k in range(90 if thorough else 70):
        name = "Pmany%d" % k
        gk = ["i23", "i263", "ed37", "i11"][k % 4]
        try:
            uni.paramset(name, grp=gk, M=b"M-%d" % k, N=b"N-%d" % k, S=b"S-%d" % k)
        except AssertionError:
            continue                      # a seed that hits finding F7 (HKDF output 0 mod p) on a tiny group: not a C16 matter
        many.append((name, gk))
    r = Run("many-parameter-sets", uni)
    first = {}
    for rnd in range(2):
        for k, (name, gk) in enumerate(many if rnd == 0 else many[:6]):
            q = uni.group(gk).order()
            v = "s%d.%d" % (rnd, k)
            try:
                r.new(v, "ABS"[k % 3], name, b"pw", b"a", b"b" if k % 3 != 2 else b"")
            except Exception:
                continue                  # a seed that hits finding F7 on a tiny group
            r.start(v, mp.stream_for(gk, 3 % q))
            blob = r.serialize(v)
            if rnd == 0 and k < 6:
                first[k] = (blob, "ABS"[k % 3], name)
    for k, (blob, cls, name) in first.items():
        if blob is not None:
            r.restore("back%d" % k, cls, name, blob)
    traces.append(r.json())
    # short-lived parameter sets: created, used by one exchange with the SAME password, and dropped, so that object
    # identities are recycled (tables keyed by id() of a dead object)
    import gc
    sp_ = load_repo()
    G263 = uni.group("i263")
    r = Run("short-lived-parameter-sets", uni)
    for k in range(300 if thorough else 140):
        name = "Pshort%d" % k
        seeds = dict(M=b"sM%d" % k, N=b"sN%d" % k, S=b"sS%d" % k)
        try:
            P = sp_.params._Params(G263, **seeds)
        except AssertionError:
            continue                      # finding F7
        uni.params[name] = P
        uni.pdesc[name] = {"grp": "i263", "M": hx(seeds["M"]), "N": hx(seeds["N"]), "S": hx(seeds["S"])}
        ca, cb = ("A", "B") if k % 2 else ("S", "S")
        r.new("a%d" % k, ca, name, b"same-pw", b"a", b"b" if ca != "S" else b"")
        r.new("b%d" % k, cb, name, b"same-pw", b"a", b"b" if ca != "S" else b"")
        ma = r.start("a%d" % k, mp.stream_for("i263", 3 + k % 90))
        mb = r.start("b%d" % k, mp.stream_for("i263", 4 + k % 80))
        if ma is not None and mb is not None:
            r.finish("a%d" % k, mb)
            r.finish("b%d" % k, ma)
        del uni.params[name]
        for v in ("a%d" % k, "b%d" % k):
            r.t._peek(r.inst[v])
            r.t.objs.pop(r.inst[v], None)
        del P
        if k % 40 == 0:
            gc.collect()
    traces.append(r.json())
    # interleaved sessions on the shipped sets (one thread): two exchanges on different sets, calls alternating
    for ps in ("PEd25519", "P1024", "P2048", "P3072"):
        uni.paramset(ps)
    ship = [("PEd25519", "Ed25519"), ("PEd25519", "Ed25519"), ("P1024", "I1024"), ("P1024", "I1024")]
    for k, sc in enumerate([s4[0], s4[-1], s4[len(s4) // 3]] + ([s4[len(s4) // 2], s4[7]] if thorough else [])):
        sets2 = ship if k % 2 == 0 else [("P2048", "I2048"), ("P2048", "I2048"), ("P3072", "I3072"), ("P3072", "I3072")]
        for g in {s[1] for s in sets2}:
            for w in (1, 2):
                mp._pw.setdefault(g, {})[w] = [b"pw-%d" % w, b"pw2-%d" % w]
        traces.append(replay(uni, mp, sc, 4, sets2, "shipped-interleaved/%d" % k))
    traces += preemption_family(ctx, uni, mp, thorough)
    ctx.validate(traces, uni, what="interleaving")
