"""C08 persist/restore transparency."""
from framework import *
from drivers import *

PEER = {"A": b"B", "B": b"A", "S": b"S"}


def model(ctx, g, cls, wset, maxrest, witness):
    consts = dict(toy_consts(g))
    consts.update({"CLS": '"%s"' % cls, "WSET": "{%s}" % ",".join(map(str, wset)),
                   "ParamSets": "<- MC_ParamSets", "Passwords": "<- MC_Passwords", "IdPairs": "<- MC_IdPairs",
                   "ClassSet": "<- MC_ClassSet", "MaxInst": str(maxrest + 1), "MaxRestore": str(maxrest),
                   "ScalarChoices": "<- MC_ScalarChoices", "Attacker": "<- MC_Attacker"})
    label = "MC_Persist[%s,%s,|w|=%d,all x,restores<=%d]" % (g, cls, len(wset), maxrest)
    ctx.mc("MC_Persist", cfg(view="ViewNoLast", spec="PersistSpec", constants=consts,
                             invariants=["RestoreEquivalent", "SerializeStable", "SameOutcomes", "AtMostOneKey",
                                         "AtMostOneMsg", "EntropyOnlyInStart", "NeverKeyForWrongSide", "LifecycleInv"],
                             properties=["SerializePure", "ScalarStable", "RefinesLifecycle"]), label=label)
    if witness:
        ws = ["NoWitnessRestoredKey"]
        ctx.witness("MC_Persist", cfg(view="ViewNoLast", spec="PersistSpec", constants=consts, invariants=ws), ws, label=label)


def inbound_classes(G, own, cls, x, q):
    valid = G.Base.scalarmult((x % (q - 1)) + 1).to_bytes()
    if valid == own:
        valid = G.Base.scalarmult(((x + 1) % (q - 1)) + 1).to_bytes()
    p = PEER[cls]
    return [("valid", p + valid), ("reflected", p + own), ("undecodable", p + valid + b"\x00"),
            ("truncated", p + valid[:-1]), ("offside", (b"A" if cls != "B" else b"B") + valid),
            ("identity", p + G.Zero.to_bytes()), ("empty", b"")]


def persist_traces(uni, mp, g, ps, cases, tag):
    """cases: (cls, pw, idA, idB, x, nrestore, which inbound class)"""
    G = uni.group(g)
    q = G.order()
    traces = []
    for cls, pw, idA, idB, x, nrest, k in cases:
        r = Run("%s/%s/%s/x%d/restores%d/in%d" % (tag, g, cls, x, nrest, k), uni)
        r.new("a", cls, ps, pw, idA, idB if cls != "S" else b"")
        m = r.start("a", mp.stream_for(g, x))
        cur = "a"
        blobs = []
        for n in range(nrest):
            blob = r.serialize(cur)
            blobs.append(blob)
            if n % 2 == 1:
                r.serialize(cur)          # serialize twice: same data, no state change
            if blob is not None and r.restore("a%d" % n, cls, ps, blob) is not None:
                cur = "a%d" % n
        name, msg = inbound_classes(G, m[1:], cls, x, q)[k % 7]
        r.finish(cur, msg)
        r.finish("a", msg)               # the original, same message
        if cur != "a":
            r.serialize(cur)
        traces.append(r.json())
    return traces


def run(ctx):
    thorough = ctx.tier == "thorough"
    for g, cls, wset, mr, wit in ([(g, c, None, 3, g == "i11") for g in ("i11", "ed37") for c in "ABS"] +
                                  [("i23", c, [0, 1, 10], 2, False) for c in "ABS"] if thorough
                                  else [("i11", "A", [0, 1], 3, True), ("i11", "B", [1], 2, False), ("i11", "S", [1], 2, False),
                                        ("ed37", "S", [1], 1, False)]):
        model(ctx, g, cls, wset if wset is not None else list(range(toy_order(g))), mr, wit)
    uni = Universe()
    mp = Mapper(uni)
    traces = []
    for g in (["i11", "i23", "ed37", "ed53"] if thorough else ["i11", "ed37"]):
        ps = "P" + g
        uni.paramset(ps, grp=g)
        q = toy_order(g)
        cases = []
        n = 0
        for cls in "ABS":
            for w in range(q):
                for x in range(q):
                    for nrest in range(4):
                        for k in range(7):
                            n += 1
                            if not thorough and (n + ctx.seed) % 5:
                                continue
                            cases.append((cls, mp.pw_for(g, w, tag=n % 2), b"id\x00A", b"\xffB", x, nrest, k))
        traces += persist_traces(uni, mp, g, ps, cases, "toy")
    pws = [b"", b"\x00", b"password", b"p" * 55, b"q" * 64, b"r" * 65, b"\x00\x01\xfe\xff", "pässwörd".encode(), b"s" * 200]
    ids = [(b"", b""), (b"alice", b"bob"), (b"\x00", b"\xff\x00"), (b"ab", b"c"), (b"i" * 200, b"")]
    for ps, g in [("PEd25519", "Ed25519"), ("P1024", "I1024"), ("P2048", "I2048"), ("P3072", "I3072")]:
        uni.paramset(ps)
        q = uni.group(g).order()
        cases = []
        for n in range(42 if thorough else 9):
            x = [0, 1, q - 1, ctx.rng.randrange(q)][n % 4]
            cases.append(("ABS"[n % 3], pws[n % len(pws)], ids[n % len(ids)][0], ids[n % len(ids)][1], x, n % 4, n))
        traces += persist_traces(uni, mp, g, ps, cases, "shipped")
    # the empty password / empty identities through one, two and three restores on every class
    for ps, g in [("Pi11", "i11"), ("PEd25519", "Ed25519"), ("P1024", "I1024")]:
        q = uni.group(g).order()
        traces += persist_traces(uni, mp, g, ps, [(cls, b"", b"", b"", 3 % q, nrest, 0) for cls in "ABS" for nrest in (1, 2, 3)], "empty")
    # deep chains: a session persisted and revived many times before it finishes
    for ps, g, depth in [("Pi11", "i11", 40 if thorough else 25), ("Ped37", "ed37", 12), ("PEd25519", "Ed25519", 10 if thorough else 6), ("P1024", "I1024", 8)]:
        G = uni.group(g)
        q = G.order()
        for cls in ("ABS" if thorough else "AS"):
            r = Run("deep-chain/%s/%s" % (g, cls), uni)
            r.new("a", cls, ps, b"\x00pw\xff", b"id\x80", b"\x00" if cls != "S" else b"")
            m = r.start("a", mp.stream_for(g, (q - 1) if cls == "A" else 5 % q))
            cur = "a"
            for n in range(depth):
                blob = r.serialize(cur)
                if blob is not None and r.restore("c%d" % n, cls, ps, blob) is not None:
                    cur = "c%d" % n
            r.finish(cur, PEER[cls] + G.Base.scalarmult(7 % q or 1).to_bytes())
            r.serialize(cur)
            traces.append(r.json())
    # random calls on a session and all of its revived copies (see fuzz.lineage_trace)
    import fuzz
    for ps, g, cnt in [("Pi11", "i11", 400 if thorough else 60), ("Ped37", "ed37", 200 if thorough else 30),
                       ("PEd25519", "Ed25519", 30 if thorough else 6), ("P1024", "I1024", 20 if thorough else 3)]:
        for k in range(cnt):
            traces.append(fuzz.lineage_trace(ctx.rng, uni, mp, ps, g, "ABS"[k % 3], "lineage/%s/%d" % (g, k)))
    # volume: very long password and identities (state blobs of more than a megabyte), persisted and revived twice
    for ps, g, cls, npw, nid in ([("Pi11", "i11", "A", 700000, 1000), ("PEd25519", "Ed25519", "S", 1000, 600000)] +
                                 ([("P1024", "I1024", "B", 300000, 300000)] if thorough else [])):
        G = uni.group(g)
        q = G.order()
        r = Run("volume/%s/%s" % (g, cls), uni)
        pw = bytes((7 * i + 3) % 256 for i in range(251)) * (npw // 251)
        ida = bytes((5 * i + 1) % 256 for i in range(241)) * (nid // 241)
        r.new("a", cls, ps, pw, ida, b"short" if cls != "S" else b"")
        r.start("a", mp.stream_for(g, 3 % q))
        cur = "a"
        for n in range(2):
            blob = r.serialize(cur)
            if blob is not None and r.restore("c%d" % n, cls, ps, blob) is not None:
                cur = "c%d" % n
        r.finish(cur, PEER[cls] + G.Base.scalarmult(2 % q or 1).to_bytes())
        traces.append(r.json())
    ctx.validate(traces, uni, what="persist/restore")
