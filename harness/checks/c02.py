"""C02 any mismatch or in-flight tampering prevents agreement."""
import base64, binascii
from framework import *
from drivers import *
import pure

DIFFS_VIEW = ["pwclass", "pwbytes", "idA", "idB", "swap", "join"]
DIFFS_PARAM = {"AB": ["M", "N", "gen"], "SS": ["S", "gen"]}


def consts_for(g, pairing, diff, wset, tamper, xset=None):
    c = dict(toy_consts(g))
    c["XSET"] = "{%s}" % ",".join(map(str, xset if xset is not None else range(toy_order(g))))
    c.update({"PAIRING": '"%s"' % pairing, "DIFF": '"%s"' % diff, "WSET": "{%s}" % ",".join(map(str, wset)),
              "TAMPER": '"%s"' % tamper, "ParamSets": "{}", "Passwords": "{}", "IdPairs": "{}", "ClassSet": "{}",
              "MaxInst": "2", "MaxRestore": "0", "ScalarChoices": "<- AllScalars", "Attacker": "<- NoAttacker"})
    return c


def models(ctx, g, thorough):
    q = toy_order(g)
    allw = list(range(q))
    f8 = False
    for pairing in ("AB", "SS"):
        # (a) a difference in the views: no agreement, ever
        for diff in DIFFS_VIEW:
            if pairing == "SS" and diff in ("idB", "swap", "join"):
                continue
            ctx.mc("MC_Tamper", cfg(view="ViewNoLast", spec="TamperSpec", constants=consts_for(g, pairing, diff, allw, "none"),
                                    invariants=["NoAgreementUnlessSameView"]),
                   label="MC_Tamper[%s,%s,diff=%s,all w,x,y]" % (g, pairing, diff))
        # (b) parameter differences: no agreement except finding F8, which TLC must exhibit
        for diff in DIFFS_PARAM[pairing]:
            c = consts_for(g, pairing, diff, allw, "none")
            ctx.mc("MC_Tamper", cfg(view="ViewNoLast", spec="TamperSpec", constants=c, invariants=["NoAgreementButF8"]),
                   label="MC_Tamper[%s,%s,diff=%s,all w,x,y]" % (g, pairing, diff))
            res = ctx.mc("MC_Tamper", cfg(view="ViewNoLast", spec="TamperSpec", constants=c, invariants=["NoAgreementUnlessSameView"]),
                         label="MC_Tamper[%s,%s,diff=%s] strict (F8 expected)" % (g, pairing, diff),
                         expect_violation="NoAgreementUnlessSameView")
            f8 = f8 or bool(res["violated"])
        # (c) tampering: every string to one end; structured pairs to both ends
        c = consts_for(g, pairing, "none", allw if thorough else [1], "one", xset=None if thorough else [0, 1, 3])
        if thorough or pairing == "AB" or ctx.seed % 2:
          ctx.mc("MC_Tamper", cfg(view="ViewNoLast", spec="TamperSpec", constants=c, invariants=["NoAgreementUnlessSameView", "KeyOnlyFromCanonical"]),
               label="MC_Tamper[%s,%s,one-sided: every string of the universe]" % (g, pairing), timeout=7200)
        c = consts_for(g, pairing, "none", allw, "two")
        if pairing == "AB":
            ctx.mc("MC_Tamper", cfg(view="ViewNoLast", spec="TamperSpec", constants=c, invariants=["NoAgreementUnlessSameView", "KeyOnlyFromCanonical"]),
                   label="MC_Tamper[%s,%s,two-sided structured]" % (g, pairing))
        else:   # Symmetric: holds except for finding F9 (both ends sent the same element), which TLC must exhibit
            ctx.mc("MC_Tamper", cfg(view="ViewNoLast", spec="TamperSpec", constants=c, invariants=["NoAgreementButF9", "KeyOnlyFromCanonical"]),
                   label="MC_Tamper[%s,%s,two-sided structured]" % (g, pairing))
            ctx.mc("MC_Tamper", cfg(view="ViewNoLast", spec="TamperSpec", constants=c, invariants=["NoAgreementUnlessSameView"]),
                   label="MC_Tamper[%s,%s,two-sided] strict (F9 expected)" % (g, pairing), expect_violation="NoAgreementUnlessSameView")
        if g == "i11":
            ws = ["NoWitnessAgreementSameView", "NoWitnessKeyFromTampered"]
            ctx.witness("MC_Tamper", cfg(view="ViewNoLast", spec="TamperSpec", constants=c, invariants=ws), ws, label="MC_Tamper[%s,%s,two-sided]" % (g, pairing))
    return f8


TAMPERS = [
    ("as sent", lambda m, own: m),
    ("doubled", lambda m, own: m + m[1:]),
    ("peer||own", lambda m, own: m + own[1:]),
    ("own||peer", lambda m, own: m[:1] + own[1:] + m[1:]),
    ("append 00", lambda m, own: m + b"\x00"),
    ("prepend 00", lambda m, own: m[:1] + b"\x00" + m[1:]),
    ("truncate", lambda m, own: m[:-1]),
    ("drop first", lambda m, own: m[:1] + m[2:]),
    ("flip bit 0 of byte 1", lambda m, own: m[:1] + bytes([m[1] ^ 1]) + m[2:]),
    ("flip top bit of last byte", lambda m, own: m[:-1] + bytes([m[-1] ^ 0x80])),
    ("flip bit 3 of last byte", lambda m, own: m[:-1] + bytes([m[-1] ^ 8])),
    ("reflect", lambda m, own: m[:1] + own[1:]),
    ("side only", lambda m, own: m[:1]),
    # the side byte is part of the message in flight although it is not in the transcript
    ("side byte bit 5 flipped", lambda m, own: bytes([m[0] ^ 0x20]) + m[1:]),
    ("side byte bit 0 flipped", lambda m, own: bytes([m[0] ^ 0x01]) + m[1:]),
    ("side byte 00", lambda m, own: b"\x00" + m[1:]),
    ("side byte ff", lambda m, own: b"\xff" + m[1:]),
    ("side byte of the other flavour", lambda m, own: (b"S" if m[:1] in (b"A", b"B") else b"A") + m[1:]),
    # re-encodings a transport layer might apply ("re-encoded" in the property): all are different byte strings
    ("hex of the whole message", lambda m, own: binascii.hexlify(m)),
    ("side byte + upper-case hex of the element", lambda m, own: m[:1] + binascii.hexlify(m[1:]).upper()),
    ("base64", lambda m, own: base64.b64encode(m)),
    ("latin-1 text re-encoded as utf-8", lambda m, own: m.decode("latin-1").encode("utf-8") if max(m) > 127 else m + b"\xc2\x80"),
    ("element bytes reversed", lambda m, own: m[:1] + (m[1:][::-1] if m[1:][::-1] != m[1:] else m[1:] + b"\x00")),
]


def tamper_traces(ctx, uni, mp, g, ps, cases, subst, tag):
    """cases: (pairing, w, x, y, tamper index for A, tamper index for B)"""
    traces = []
    G = uni.group(g)
    for pairing, w, x, y, ta, tb in cases:
        pw = mp.pw_for(g, w) if g in TOY_INT or g in TOY_CURVES else b"password"
        ids = (b"a", b"b") if pairing == "AB" else (b"s",)
        fa = TAMPERS[ta][1] if ta < len(TAMPERS) else (lambda m, own, s=subst[ta - len(TAMPERS)]: m[:1] + s)
        fb = TAMPERS[tb][1] if tb < len(TAMPERS) else (lambda m, own, s=subst[tb - len(TAMPERS)]: m[:1] + s)
        nn = len(traces)
        r = exchange(uni, "%s/%s/%s/w%s/x%d/y%d/A:%d/B:%d" % (tag, g, pairing, w, x % 1000, y % 1000, ta, tb), pairing, ps, pw, pw,
                     ids, ids, mp.stream_for(g, x), mp.stream_for(g, y), tamperA=fa, tamperB=fb,
                     restoreA=(nn // 3) % 2, restoreB=(nn // 5) % 2)
        traces.append(r.json())
    return traces


def mismatch_traces(ctx, uni, mp, g, ps, fam, thorough):
    traces = []
    q = uni.group(g).order()
    toy = g in TOY_INT or g in TOY_CURVES
    xs = range(q) if toy and q <= 11 else [0, 1, q - 1, ctx.rng.randrange(q), ctx.rng.randrange(q)] if thorough else [0, ctx.rng.randrange(q)]
    for pairing in ("AB", "SS"):
        ids = (b"alice", b"bob") if pairing == "AB" else (b"sym",)
        variants = [("pw", dict(pwB=b"other")), ("idA", dict(idsB=(b"alice2",) + ids[1:])),
                    # differences a normalising implementation would erase: case, surrounding whitespace, NUL, NFC/NFD
                    ("idA-case", dict(idsB=(ids[0].capitalize(),) + ids[1:])), ("idA-space", dict(idsB=(ids[0] + b" ",) + ids[1:])),
                    ("idA-newline", dict(idsB=(b"\n" + ids[0],) + ids[1:])), ("idA-nul", dict(idsB=(ids[0] + b"\x00",) + ids[1:])),
                    ("pw-case", dict(pwA=b"Password", pwB=b"password")), ("pw-space", dict(pwA=b"password", pwB=b"password ")),
                    ("pw-nul", dict(pwA=b"password", pwB=b"password\x00")),
                    ("pw-nfc-nfd", dict(pwA="pässword".encode(), pwB=b"pa\xcc\x88ssword"))]
        if pairing == "AB":
            variants += [("idB", dict(idsB=(ids[0], b"bob2"))), ("swap", dict(idsB=(ids[1], ids[0]))),
                         ("idB-case", dict(idsB=(ids[0], b"BOB"))), ("idB-tab", dict(idsB=(ids[0], b"bob\t"))),
                         ("join", dict(idsB=(ids[0] + ids[1], b"")))]
            # the same text with a separator, split at another field boundary (a joined or cached transcript head
            # must keep these apart)
            seps = [b":", b"\x00", b",", b"|", b"/", b" ", b";", b"-", b"\n", b"="]
            for s in (seps if thorough else seps[ctx.seed % 2:ctx.seed % 2 + 3]):
                variants.append(("sep-%02x" % s[0], dict(idsA=(b"alice" + s + b"desk", b"bob"), idsB=(b"alice", b"desk" + s + b"bob"))))
        variants += [(k, dict(psB=fam[k])) for k in (DIFFS_PARAM[pairing] if toy else ([] if not fam else list(fam)))]
        if not thorough and not toy:          # quick: a seed-dependent third of the variants at full size
            variants = [v for k, v in enumerate(variants) if k % 3 == ctx.seed % 3 or v[0] in ("pw", "idA-case") or v[0].startswith("sep-")]
        if not thorough and g != "i11" and toy:
            variants = [v for k, v in enumerate(variants) if k % 2 == ctx.seed % 2 or v[0] in DIFFS_PARAM[pairing] or v[0].startswith("sep-")]
        for name, kw in variants:
            for x in xs:
                for y in (xs if toy and q <= 5 or thorough and toy and q <= 11 else [0, (q - x) % q, ctx.rng.randrange(q)] if toy or thorough
                          else [(q - x) % q if x else ctx.rng.randrange(q)]):
                    for w in ([0, 1] if toy else [None]):
                        pw = kw.get("pwA") or (mp.pw_for(g, w) if toy else b"password")
                        nn = len(traces)     # either end may have been persisted and revived before finish()
                        r = exchange(uni, "mismatch/%s/%s/%s/x%d/y%d/w%s" % (g, pairing, name, x % 1000, y % 1000, w), pairing, ps, pw,
                                     kw.get("pwB", pw), kw.get("idsA", ids), kw.get("idsB", ids), mp.stream_for(g, x), mp.stream_for(g, y),
                                     psB=kw.get("psB"), restoreA=nn % 2, restoreB=(nn // 2) % 2)
                        traces.append(r.json())
    return traces


def run(ctx):
    thorough = ctx.tier == "thorough"
    f8_model = models(ctx, "i11", thorough)
    if thorough:
        models(ctx, "ed37", False)
        models(ctx, "i23", False)
    uni = Universe()
    mp = Mapper(uni)
    traces = []
    import c09
    uni.int_group("i11alt", 11, 5, 5)
    fam = c09.family(uni, "i11", "i23", "i11alt")
    famd = {"M": fam["Mdiff"], "N": fam["Ndiff"], "S": fam["Sdiff"], "gen": fam["gen"]}
    traces += mismatch_traces(ctx, uni, mp, "i11", "Pi11", famd, thorough)
    TOY_CURVES["ed37alt"] = (37, 2, 5, 30)
    fam2 = c09.family(uni, "ed37", "ed53", "ed37alt")
    famd2 = {"M": fam2["Mdiff"], "N": fam2["Ndiff"], "S": fam2["Sdiff"], "gen": fam2["gen"]}
    traces += mismatch_traces(ctx, uni, mp, "ed37", "Ped37", famd2, thorough)
    # tampering on toy groups: every tamper x every tamper on both sides (incl. the Y*||Y* / X*||Y* scenario)
    nt = len(TAMPERS)
    for g in (["i11", "ed37", "i263"] if thorough else ["i11", "ed37"]):
        ps = "P" + g
        uni.paramset(ps, grp=g)
        q = toy_order(g)
        G = uni.group(g)
        subst = [G.Zero.to_bytes(), G.Base.to_bytes(), uni.params[ps].M.to_bytes(), uni.params[ps].N.to_bytes(), uni.params[ps].S.to_bytes()]
        cases = []
        for pairing in ("AB", "SS"):
            for ta in range(nt + len(subst)):
                for tb in range(nt + len(subst)):
                    if not thorough and (ta * 31 + tb + ctx.seed) % 3 and not (ta in (1, 2, 3) and tb in (1, 2, 3)):
                        continue
                    cases.append((pairing, ctx.rng.randrange(q), ctx.rng.randrange(q), ctx.rng.randrange(q), ta, tb))
        # finding F9: Symmetric ends with the same scalar, both handed the same substituted element
        for x in range(min(q, 5)):
            cases.append(("SS", 1, x, x, nt + 1, nt + 1))
            cases.append(("SS", 0, x, x, nt + 2, nt + 2))
        traces += tamper_traces(ctx, uni, mp, g, ps, cases, subst, "tamper")
    # elements with LEADING ZERO bytes (nearly every element of i263 has a two-byte encoding 00 xx; half of those of the
    # 65-bit field m65 start with 00): bytes removed from or added to the front or the end, on either or both sides - a
    # decoder that pads or strips would make the ends agree on a message that was altered in flight
    lz = [k for k, (n, f) in enumerate(TAMPERS) if n in ("drop first", "truncate", "prepend 00", "append 00", "as sent")]
    for g in ["i263", "m65"]:
        ps = "P" + g
        uni.paramset(ps, grp=g)
        q = uni.group(g).order()
        cases = [(pairing, 1 + (ta + tb) % 3, ctx.rng.randrange(q), ctx.rng.randrange(q), ta, tb)
                 for pairing in ("AB", "SS") for ta in lz for tb in lz if (ta, tb) != (0, 0) for _ in range(2 if g == "i263" else 4)]
        traces += tamper_traces(ctx, uni, mp, g, ps, cases, [], "tamper-leading-zero")
    # one-sided: every short string to A on the 1-byte group
    uni.paramset("Pi11", grp="i11")
    strings = [b""] + [bytes([a]) for a in range(256)] + [bytes([a, b]) for a in range(256) for b in range(256)
                                                          if thorough or (a * 256 + b) % 23 == ctx.seed % 23]
    for k, s in enumerate(strings):
        pairing = "AB" if k % 2 else "SS"
        r = exchange(uni, "onesided/i11/%s/%s" % (pairing, hx(s)), pairing, "Pi11", mp.pw_for("i11", 1), mp.pw_for("i11", 1),
                     (b"a", b"b") if pairing == "AB" else (b"s",), (b"a", b"b") if pairing == "AB" else (b"s",),
                     mp.stream_for("i11", k % 5), mp.stream_for("i11", (k // 5) % 5), tamperA=lambda m, own, s=s: m[:1] + s)
        traces.append(r.json())
    # shipped sets: tamper list incl. adversarial encodings computed from the specification, and mismatches
    for ps, g in [("PEd25519", "Ed25519"), ("P1024", "I1024"), ("P2048", "I2048"), ("P3072", "I3072")]:
        uni.paramset(ps)
        G = uni.group(g)
        q = G.order()
        adv, res = pure.gen_from_spec("GenAdversarial", uni.gdesc[g])
        subst = [G.Zero.to_bytes(), G.Base.to_bytes(), uni.params[ps].M.to_bytes(), uni.params[ps].N.to_bytes(),
                 uni.params[ps].S.to_bytes()] + [unhx(c["b"]) for c in adv]
        cases = [("AB", None, ctx.rng.randrange(q), ctx.rng.randrange(q), 1, 2), ("SS", None, ctx.rng.randrange(q), ctx.rng.randrange(q), 1, 3)]
        allt = list(range(nt + len(subst)))
        for k, ta in enumerate(allt if thorough else allt[::4] + allt[1:14:4]):
            cases.append(("AB" if k % 2 else "SS", None, ctx.rng.randrange(q), ctx.rng.randrange(q), ta, (ta * 7 + 3) % len(allt) if k % 3 == 0 else 0))
        traces += tamper_traces(ctx, uni, mp, g, ps, cases, subst, "tamper-shipped")
        if thorough or g in ("Ed25519", "I1024"):
            other = "P2048" if g != "I2048" else "P1024"
            uni.paramset(other)
            traces += mismatch_traces(ctx, uni, mp, g, ps, {"othergroup": other} if g != "Ed25519" else {}, thorough)

    def classify(t, r):
        kinds = {e["why"][:2] for e in r["errs"]}
        return kinds.pop() if len(kinds) == 1 and kinds <= {"F8", "F9"} and all(e["why"][2] == ":" for e in r["errs"]) else None
    ctx.validate(traces, uni, what="mismatch/tamper", classify=classify)
    if f8_model and not any("F8" in l or "C02" in l for l in ctx.known_lines):
        ctx.cov["note"] = "design-level F8 counterexamples found by TLC; no F8 coincidence occurred in this run's replay"
