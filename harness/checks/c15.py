"""C15 codecs are fixed-width bijections."""
from framework import *
from drivers import *
import pure


def run(ctx):
    thorough = ctx.tier == "thorough"
    for g, maxv in ([("i23", 4095), ("i263", 600), ("ed37", 600), ("i32771", 600)] if thorough else [("i23", 511), ("ed37", 100)]):
        ctx.mc("MC_Codec", cfg(constants=dict(toy_consts(g), MAXV=str(maxv)), invariants=["Sizes", "Bijection"]),
               label="MC_Codec[every maxval <= %d, every n <= maxval; scalars/elements of %s]" % (maxv, g), timeout=7200)
    uni = Universe()
    traces = []
    top = 4096 if thorough else 512
    mvs = list(range(top))
    for i in range(0, len(mvs), 64):
        t = Trace("n2b-tables-%d" % i, uni)
        for mv in mvs[i:i + 64]:
            t.raw(pure.ev_n2b_table(mv))
        traces.append(t.to_json())
    ctx.cov["codec_cases_tabulated"] = sum(m + 2 for m in mvs)
    t = Trace("n2b-big", uni)
    for k in ([1, 2, 3, 4, 8, 16, 20, 28, 32, 33, 64, 128, 129, 256, 257, 384, 385] if thorough else [1, 2, 4, 20, 32, 128, 384]):
        for mv in (2 ** (8 * k) - 1, 2 ** (8 * k), 2 ** (8 * k) + 1):
            for n in {0, 1, mv - 1, mv, mv + 1, ctx.rng.randrange(mv + 1)}:
                t.raw(pure.ev_n2b(n, mv))
    traces.append(t.to_json())
    for g in (["i11", "i23", "i263", "i1019", "ed37", "ed109"] if thorough else ["i23", "i263", "ed37"]):
        uni.group(g)
        q = toy_order(g)
        t = Trace("scalar-codec/" + g, uni)
        for k in range(q):
            t.raw(pure.ev_s_codec(uni, g, k))
        # every element: to_bytes, and bytes_to_element of it
        t.raw(pure.ev_mul_row(uni, g, 1, "mul", 0, q - 1))
        G = uni.group(g)
        for k in range(q):
            t.raw(pure.ev_dec(uni, g, G.Base.scalarmult(k).to_bytes()))
        traces.append(t.to_json())
    # ... and custom groups of unusual shape (core.zoo): p or q exactly filling their bytes, one-byte q, 66/75-byte elements
    zl = ["q64full", "m64", "m65", "q251", "m521", "s600", "s136", "s72a"]
    for ps, g in [("PEd25519", "Ed25519"), ("P1024", "I1024"), ("P2048", "I2048"), ("P3072", "I3072")] + \
            [("P" + z, z) for z in (zl if thorough else zl[:5])]:
        uni.paramset(ps, grp=g) if g in zoo() else uni.paramset(ps)
        G = uni.group(g)
        q = G.order()
        t = Trace("scalar-codec/" + g, uni)
        for k in [k for k in (0, 1, 2, 255, 256, q - 1, q - 2, (q - 1) // 2, 2 ** 100) if k < q] + [ctx.rng.randrange(q) for _ in range(20 if thorough else 3)]:
            t.raw(pure.ev_s_codec(uni, g, k))
        for k in [1, 2, q - 1] + [ctx.rng.randrange(1, q) for _ in range(6 if thorough else 1)]:
            t.raw(pure.ev_dec(uni, g, G.Base.scalarmult(k).to_bytes()))
        traces.append(t.to_json())
    ctx.validate(traces, uni, what="codec")
