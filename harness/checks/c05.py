"""C05 strict decoding."""
from framework import *
from drivers import *
import pure

SIDE_OF_PEER = {"A": b"B", "B": b"A", "S": b"S"}


def model(ctx, g, maxy):
    consts = dict(toy_consts(g), MAXY=str(maxy))
    ctx.mc("MC_Decode", cfg(constants=consts, invariants=["StrictDecode"]), label="MC_Decode[%s,maxy=%d]" % (g, maxy))


def finish_traces(uni, mp, g, ps, strings, classes=("A", "B", "S"), tag=""):
    """each string, prefixed by the acceptable side byte, given to finish() of a started instance"""
    traces = []
    q = uni.group(g).order()
    for k, b in enumerate(strings):
        cls = classes[k % len(classes)]
        r = Run("%s/finish%s/%s/%s" % (g, tag, cls, hx(b)[:70]), uni)
        r.new("a", cls, ps, b"pw%d" % (k % 7), b"idA", b"idB" if cls != "S" else b"")
        r.start("a", mp.stream_for(g, (k * 7 + 1) % q))
        r.finish("a", SIDE_OF_PEER[cls] + b)
        traces.append(r.json())
    return traces


def run(ctx):
    thorough = ctx.tier == "thorough"
    for g, maxy in ([("i11", 0), ("i23", 0), ("i263", 0), ("ed37", 65536), ("ed53", 4096), ("ed109", 4096), ("ed1013", 4096), ("i32771", 0)]
                    if thorough else [("i23", 0), ("i263", 0), ("ed37", 2048)]):
        model(ctx, g, maxy)
    uni = Universe()
    mp = Mapper(uni)
    traces = []
    # toy groups: complete string domains through bytes_to_element (table events)
    for g in (["i11", "i23", "i43", "i71", "i263", "i1019", "i32771"] if thorough else ["i23", "i263"]):
        uni.group(g)
        for n, lo, hi in [(0, 0, 0), (1, 0, 256)] + [(2, a, a + 16) for a in range(0, 256, 16)]:
            t = Trace("decode-table-%s-len%d-%d" % (g, n, lo), uni)
            t.raw(pure.ev_dec_table(uni, g, {"dom": "len", "n": n, "lo": lo, "hi": hi}))
            traces.append(t.to_json())
    for g, hi in ([("ed37", 65536), ("ed53", 8192), ("ed109", 8192), ("ed149", 4096), ("ed1013", 4096)] if thorough
                  else [("ed37", 4096), ("ed109", 1024)]):
        uni.group(g)
        step = 1024
        for lo in range(0, hi, step):
            t = Trace("decode-table-%s-%d" % (g, lo), uni)
            t.raw(pure.ev_dec_table(uni, g, {"dom": "edy", "lo": lo, "hi": min(hi, lo + step)}))
            traces.append(t.to_json())
    # the same strings through finish() of a started instance
    for g in (["i23", "i11", "ed37"] if thorough else ["i23", "ed37"]):
        ps = "P" + g
        uni.paramset(ps, grp=g)
        if g.startswith("i"):
            strings = pure.domain_strings({"dom": "len", "n": 1, "lo": 0, "hi": 256}) + [b""] + \
                [s for k, s in enumerate(pure.domain_strings({"dom": "len", "n": 2, "lo": 0, "hi": 256}))
                 if thorough or k % 16 == ctx.seed % 16]
        else:
            strings = pure.domain_strings({"dom": "edy", "lo": 0, "hi": 80 if not thorough else 400})
            canon = [s for s in strings if pure.dec_result(uni.group(g), s)[0]]
            strings += [c[:31] for c in canon] + [c + b"\x00" for c in canon] + [c + c for c in canon] + [b"", b"\x01"]
        traces += finish_traces(uni, mp, g, ps, strings)
    # shipped groups: adversarial encodings computed by TLC from the specification
    for ps, g in [("PEd25519", "Ed25519"), ("P1024", "I1024"), ("P2048", "I2048"), ("P3072", "I3072")]:
        uni.paramset(ps)
        cases, res = pure.gen_from_spec("GenAdversarial", uni.gdesc[g])
        ctx.cov["states"] += res.get("states", 0)
        ctx.sample({"group": g, "adversarial_encodings_from_spec": [(c["k"], c["b"][:40] + "...") for c in cases[:4]], "n": len(cases)})
        strings = [unhx(c["b"]) for c in cases]
        # a subgroup element whose canonical encoding starts with a zero byte, and the same without that byte / with one more
        G = uni.group(g)
        if g != "Ed25519":
            e = G.Base
            for k in range(1, 4000):
                if e.to_bytes()[0] == 0:
                    lz = e.to_bytes()
                    strings += [lz, lz[1:], b"\x00" + lz, lz[1:] + b"\x00"]
                    cases += [{"k": "element with a leading zero byte (k=%d)" % k, "b": hx(lz)}, {"k": "... leading zero stripped", "b": hx(lz[1:])},
                              {"k": "... one more zero", "b": hx(b"\x00" + lz)}, {"k": "... zero moved to the end", "b": hx(lz[1:] + b"\x00")}]
                    break
                e = e.add(G.Base)
        t = Trace("adversarial-decode-" + g, uni)
        for c in cases:
            t.raw(dict(pure.ev_dec(uni, g, unhx(c["b"])), note=c["k"]))
        traces.append(t.to_json())
        traces += finish_traces(uni, mp, g, ps, strings if thorough else strings[::2] + strings[1::6],
                                classes=("A", "B", "S") if g == "Ed25519" else ("A", "S"), tag="-adv")
    # decoding is a pure function: it must not depend on what was decoded before.  Histories a, b, a over the
    # specification's adversarial encodings (every failure class, valid elements and their negations / twins), in one
    # process - at the decoder, and through sessions: finish(i1, a); finish(i2, b); finish(restored copy of i1, a)
    QUICK_ED = ["torsion point", "B + torsion", "-B + torsion", "base point", "-B", "2B", "3B", "-3B", "order 8L point",
                "off-curve y", "identity, sign", "y = Q+1 (identity", "truncated to 31", "extended 00"]
    for ps, g in [("Ped37", "ed37"), ("PEd25519", "Ed25519"), ("Pi23", "i23"), ("P1024", "I1024")] + ([("Ped109", "ed109"), ("P3072", "I3072")] if thorough else []):
        uni.paramset(ps, grp=g) if g in TOY_INT or g in TOY_CURVES else uni.paramset(ps)
        cases, res = pure.gen_from_spec("GenAdversarial", uni.gdesc[g])
        pool, seen = [], set()
        for c in cases:
            if c["b"] in seen:
                continue
            if g == "Ed25519" and not thorough:
                lab = [l for l in QUICK_ED if c["k"].startswith(l)]
                if not lab or sum(1 for p_ in pool if p_[0].startswith(lab[0])) >= (3 if "torsion" in lab[0] else 1):
                    continue
            seen.add(c["b"])
            pool.append((c["k"], unhx(c["b"])))
        G = uni.group(g)
        good = [b for _, b in pool if pure.dec_result(G, b)[0]]
        for i in range(0, len(pool), 6):
            t = Trace("decode-history/%s/%d" % (g, i), uni)
            for _, a in pool[i:i + 6]:
                for _, b in pool:
                    for s in (a, b, a):
                        t.raw(pure.ev_dec(uni, g, s))
            traces.append(t.to_json())
        ctx.cov["decode_histories_a_b_a"] = ctx.cov.get("decode_histories_a_b_a", 0) + len(pool) ** 2
        q = G.order()
        for ka, a in enumerate(good[:6 if thorough else 3]):
            for kb, (lab, b) in enumerate(pool):
                cls = "ABS"[(ka + kb) % 3]
                r = Run("session-history/%s/%s/%d/%d" % (g, cls, ka, kb), uni)
                for v in ("i1", "i2"):
                    r.new(v, cls, ps, b"pw", b"idA", b"idB" if cls != "S" else b"")
                r.start("i1", mp.stream_for(g, 5 % q))
                r.start("i2", mp.stream_for(g, 6 % q))
                blob = r.serialize("i1")
                if blob is not None:
                    r.restore("i1r", cls, ps, blob)
                r.finish("i1", SIDE_OF_PEER[cls] + a)
                r.finish("i2", SIDE_OF_PEER[cls] + b)
                if "i1r" in r.inst:
                    r.finish("i1r", SIDE_OF_PEER[cls] + a)
                traces.append(r.json())
    # custom groups of unusual shape (core.zoo): the specification's adversarial encodings plus values with a regular
    # bit structure (m * 2^k and neighbours, p minus them, g^(2^k)) at every bit position
    zl = [("s72a", 1), ("s136", 1), ("q251", 1), ("s72b", 1), ("m65", 1), ("s264", 8), ("q64full", 8), ("m521", 8), ("s600", 8), ("m64", 1)]
    for g, step in (zl if thorough else zl[:4]):
        ps = "P" + g
        uni.paramset(ps, grp=g)
        cases, res = pure.gen_from_spec("GenAdversarial", dict(uni.gdesc[g], step=step))
        ctx.cov["states"] += res.get("states", 0)
        ctx.cov["structured_values_from_spec"] = ctx.cov.get("structured_values_from_spec", 0) + len(cases)
        t = Trace("structured-decode-" + g, uni)
        for c in cases:
            t.raw(dict(pure.ev_dec(uni, g, unhx(c["b"])), note=c["k"]))
        traces.append(t.to_json())
        strings = [unhx(c["b"]) for c in cases]
        traces += finish_traces(uni, mp, g, ps, strings[::(7 if thorough else 29)] + strings[:20], classes=("A", "S"), tag="-zoo")
    # ... structured y coordinates on the curves (both sign bits)
    for g, step in ([("ed1013", 1), ("ed109", 1), ("Ed25519", 8)] if thorough else [("ed1013", 1), ("Ed25519", 64)]):
        uni.group(g)
        cases, res = pure.gen_from_spec("GenAdversarial", dict(uni.gdesc[g], step=step))
        sc_ = [c for c in cases if c["k"] == "structured y"]
        ctx.cov["structured_values_from_spec"] = ctx.cov.get("structured_values_from_spec", 0) + len(sc_)
        for i in range(0, len(sc_), 40):
            t = Trace("structured-decode-%s-%d" % (g, i), uni)
            for c in sc_[i:i + 40]:
                t.raw(dict(pure.ev_dec(uni, g, unhx(c["b"])), note=c["k"]))
            traces.append(t.to_json())
    # ... and on the shipped integer groups at word boundaries
    for ps, g in [("P1024", "I1024"), ("P2048", "I2048"), ("P3072", "I3072")][:(3 if thorough else 1)]:
        cases, res = pure.gen_from_spec("GenAdversarial", dict(uni.gdesc[g], step=64 if thorough else 256))
        t = Trace("structured-decode-" + g, uni)
        for c in cases:
            if c["k"] == "structured value":
                t.raw(dict(pure.ev_dec(uni, g, unhx(c["b"])), note=c["k"]))
        traces.append(t.to_json())
    ctx.validate(traces, uni, what="decoding")
