"""C12 Edwards addition and doubling."""
from framework import *
from drivers import *
import pure

INVS = ["AffineLawComplete", "AddUnifiedComplete", "DoubleCorrect", "AddDedicatedCorrect", "DedicatedFailsSomewhere",
        "SlowLadderCorrect", "FastLadderSafe", "AffMulIsNFold"]


def model(ctx, g, zset):
    consts = dict(toy_consts(g), ZSET="{%s}" % ",".join(map(str, zset)))
    ctx.mc("MC_EdFormulas", cfg(constants=consts, invariants=INVS),
           label="MC_EdFormulas[%s, all %d^2 point pairs, %d^2 scalings]" % (g, 8 * toy_order(g), len(zset)), timeout=7200)


def toy_tables(ctx, uni, g, zset):
    uni.group(g)
    basic = uni.basic[g]
    pts = pure.toy_curve_points(basic)
    if len(pts) != 8 * basic.L:
        raise MachineryError("toy curve %s has %d points" % (g, len(pts)))
    traces = []
    for i, P1 in enumerate(pts):
        t = Trace("%s/formulas/P1=%s" % (g, P1), uni)
        for z1 in zset:
            for fn in ("add3", "add4"):
                t.raw(pure.ev_ed_tab(uni, g, fn, P1, z1, pts, zset))
            t.raw(pure.ev_ed_tab(uni, g, "dbl", P1, z1, [P1], [1]))
        traces.append(t.to_json())
    return traces, len(pts) ** 2 * len(zset) ** 2 * 2 + len(pts) * len(zset)


def run(ctx):
    thorough = ctx.tier == "thorough"
    Z37 = list(range(1, 37))
    if thorough:
        model(ctx, "ed37", Z37)
        for g in ("ed53", "ed109", "ed149"):
            Q = TOY_CURVES[g][0]
            model(ctx, g, sorted({1, 2, Q - 1, ctx.rng.randrange(3, Q - 1), ctx.rng.randrange(3, Q - 1)}))
        model(ctx, "ed1013", [1, 1012])        # a 1048-point curve: 1.1 million point pairs, two scalings
    else:
        model(ctx, "ed37", [1, 2, 36, 3 + ctx.seed % 30])
        model(ctx, "ed53", [1, 52])
    uni = Universe()
    traces, ncases = [], 0
    for g, zs in ([("ed37", Z37), ("ed53", [1, 2, 52, 7, 33]), ("ed109", [1, 2, 108, 50]), ("ed149", [1, 148, 77])] if thorough
                  else [("ed37", [1, 2, 36, 3 + ctx.seed % 30, 19]), ("ed53", [1, 52, 7])]):
        t, n = toy_tables(ctx, uni, g, zs)
        traces += t
        ncases += n
    ctx.cov["toy_formula_cases"] = ncases
    # the real curve: points computed by TLC from the specification, random scalings
    uni.paramset("PEd25519")
    basic = uni.basic["Ed25519"]
    sl = {fn: pure.straight_line(basic, name) for fn, name in pure.ED_FUNCS.items()}
    ctx.cov["formulas_are_straight_line_arithmetic"] = {fn: ok for fn, (ok, bad) in sl.items()}
    for fn, (ok, bad) in sl.items():
        if not ok:
            ctx.assumptions.append("%s is not straight-line (%s): the Schwartz-Zippel argument for full-size sampling does not apply" % (fn, bad))
    Q, L = basic.Q, basic.L
    nrand = 40 if thorough else 5
    gd = dict(uni.gdesc["Ed25519"], scalars=[numhex(ctx.rng.randrange(1, L)) for _ in range(nrand)],
              wscalars=[numhex(ctx.rng.randrange(1, 8 * L)) for _ in range(nrand)])
    pts, res = pure.gen_from_spec("GenPoints", gd, timeout=3000)
    ctx.cov["states"] += res.get("states", 0)
    P = [(p["name"], (int(p["x"], 16), int(p["y"], 16))) for p in pts]
    ctx.sample({"full_size_points_from_spec": [(n, "%x" % xy[1]) for n, xy in P[:3]], "n": len(P)})
    pairs = []
    for i, (n1, p1) in enumerate(P):
        pairs.append((n1, p1, n1, p1))                              # P + P
        pairs.append((n1, p1, "-(" + n1 + ")", ((Q - p1[0]) % Q, p1[1])))  # P + (-P)
        pairs.append((n1, p1, "identity", (0, 1)))
        pairs.append(("identity", (0, 1), n1, p1))
        n2, p2 = P[(i * 7 + 3) % len(P)]
        pairs.append((n1, p1, n2, p2))
    if not thorough:
        pairs = pairs[::3] + pairs[1:40:3]
    evs = []
    for n1, p1, n2, p2 in pairs:
        z1, z2 = ctx.rng.randrange(1, Q), ctx.rng.randrange(1, Q)
        r1, r2 = pure.scale(p1, z1, Q), pure.scale(p2, z2, Q)
        for fn in ("add3", "add4", "dbl"):
            evs.append(pure.ev_ed_op(uni, "Ed25519", fn, r1, r2, "%s ; %s" % (n1, n2)))
    for i in range(0, len(evs), 12):
        t = Trace("Ed25519/formulas/%d" % i, uni)
        for e in evs[i:i + 12]:
            t.raw(e)
        traces.append(t.to_json())
    ctx.cov["full_size_formula_cases"] = len(evs)
    # the element API over ALL curve points (ElementOfUnknownGroup: torsion and mixed-order points, slow ladder):
    # every pair and small multiples on toy curves, the spec-computed points on the real curve
    def enc_of(basic, P):
        return hx(basic.encodepoint(P))
    have_u = hasattr(uni.basic["Ed25519"], "bytes_to_unknown_group_element")      # an internal helper: skip if it is gone
    for g in ((["ed37", "ed53"] if thorough else ["ed37"]) if have_u else []):
        basic = uni.basic[g]
        allp = ["zero" if P == (0, 1) else enc_of(basic, P) for P in pure.toy_curve_points(basic)]
        for i, a in enumerate(allp):
            t = Trace("%s/unknown-group/%d" % (g, i), uni)
            for b in allp:
                if thorough or (i + allp.index(b)) % 3 == ctx.seed % 3:
                    t.raw(pure.ev_u_op(uni, g, "add", a, b))
            for n in [0, 1, 2, 3, 4, 7, 8, basic.L, 8 * basic.L, 8 * basic.L + 1]:
                t.raw(pure.ev_u_op(uni, g, "mul", a, n=n))
            if a != "zero":
                t.raw(pure.ev_u_dec(uni, g, unhx(a)))
            for k in range(basic.L):          # a subgroup Element plus an arbitrary curve point, either order
                t.raw(pure.ev_mixed_add(uni, g, k, a, (i + k) % 2))
            traces.append(t.to_json())
    encs = ["zero" if xy == (0, 1) else hx(basic_.encodepoint(xy)) for basic_ in [uni.basic["Ed25519"]] for n_, xy in P]
    t = Trace("Ed25519/unknown-group", uni)
    for i, a in enumerate(encs[:18 if thorough else 12] if have_u else []):
        t.raw(pure.ev_u_op(uni, "Ed25519", "add", a, encs[(i * 5 + 1) % len(encs)]))
        t.raw(pure.ev_u_op(uni, "Ed25519", "mul", a, n=[8, L, 2, 8 * L][i % 4]))
        if i % 2 == 0 and a != "zero":
            t.raw(pure.ev_u_dec(uni, "Ed25519", unhx(a)))
        t.raw(pure.ev_mixed_add(uni, "Ed25519", 5 + i, a, i % 2))
        if len(t.events) >= 9:
            traces.append(t.to_json())
            t = Trace("Ed25519/unknown-group/%d" % i, uni)
    traces.append(t.to_json())
    ctx.validate(traces, uni, what="Edwards formulas")
