"""C10 persisted format stability."""
import json as _json
from framework import *
from drivers import *
import pure


def render(fields, style, rng):
    """the same JSON object in different concrete syntax: key order, whitespace, escapes"""
    keys = list(fields)
    rng.shuffle(keys)
    d = {k: fields[k] for k in keys}
    if style == 0:
        return _json.dumps(d).encode("ascii")
    if style == 1:
        return _json.dumps(d, indent=3, sort_keys=True).encode("ascii")
    if style == 2:
        return b"  \n\t" + _json.dumps(d, separators=(",", ":")).encode("ascii") + b" \r\n"
    if style == 3:   # \\uXXXX escapes for some characters of keys and values
        esc = lambda s: "".join("\\u%04x" % ord(c) if i % 3 == 0 else c for i, c in enumerate(s))
        return ("{" + " , ".join('"%s" : "%s"' % (esc(k), esc(v)) for k, v in d.items()) + "}").encode("ascii")
    return _json.dumps(d, separators=(" ,\n ", " :  ")).encode("ascii")


def run(ctx):
    thorough = ctx.tier == "thorough"
    # the encoder of the released format is the specification: model-check that what it encodes restores (C08/C09 models)
    for g, cls in [("i11", "A"), ("i11", "S")] + ([("ed37", "B"), ("i23", "A")] if thorough else []):
        consts = dict(toy_consts(g))
        consts.update({"CLS": '"%s"' % cls, "WSET": "{0,1,2}", "ParamSets": "<- MC_ParamSets", "Passwords": "<- MC_Passwords",
                       "IdPairs": "<- MC_IdPairs", "ClassSet": "<- MC_ClassSet", "MaxInst": "3", "MaxRestore": "2",
                       "ScalarChoices": "<- MC_ScalarChoices", "Attacker": "<- MC_Attacker"})
        ctx.mc("MC_Persist", cfg(view="ViewNoLast", spec="PersistSpec", constants=consts, invariants=["RestoreEquivalent", "SerializeStable", "SameOutcomes"]),
               label="MC_Persist[%s,%s] (encode/decode of the state format)" % (g, cls))
    uni = Universe()
    mp = Mapper(uni)
    sessions, meta = [], []
    pws = [b"", b"pw", b"password", b"\x00\x01\xfe\xff", b"p" * 70, "pässwörd".encode()]
    idl = [(b"", b""), (b"alice", b"bob"), (b"\x00", b"\xff\x00"), (b"ab", b"c"), (b"i" * 100, b"")]
    plan = []
    for g in (["i11", "i23", "ed37", "i263"] if thorough else ["i23", "ed37"]):
        uni.paramset("P" + g, grp=g)
        q = toy_order(g)
        for k in range(3 * q if thorough else q + 4):
            plan.append(("P" + g, g, "ABS"[k % 3], k % q))
    for ps, g in [("PEd25519", "Ed25519"), ("P1024", "I1024"), ("P2048", "I2048"), ("P3072", "I3072")]:
        uni.paramset(ps)
        q = uni.group(g).order()
        for k, x in enumerate([0, 1, q - 1, 2 ** 80 % q] + [ctx.rng.randrange(q) for _ in range(20 if thorough else 2)]):
            plan.append((ps, g, "ABS"[k % 3], x))
    for k, (ps, g, cls, x) in enumerate(plan):
        ids = idl[k % len(idl)]
        sessions.append({"cls": cls, "ps": ps, "pw": hx(pws[k % len(pws)]), "idA": hx(ids[0]),
                         "idB": hx(ids[1] if cls != "S" else b""), "x": numhex(x)})
    blobs, res = pure.gen_from_spec("GenBlobs", dict(uni.header(), sessions=sessions), timeout=3000)
    ctx.cov["states"] += res.get("states", 0)
    ctx.cov["blobs_encoded_by_spec"] = len(blobs)
    ctx.sample({"blob_encoded_by_the_specification": blobs[0], "session": sessions[0]})
    traces = []
    for k, ((ps, g, cls, x), fields) in enumerate(zip(plan, blobs)):
        G = uni.group(g)
        r = Run("spec-blob/%s/%s/%d" % (g, cls, k), uni)
        data = render(fields, k % 5, ctx.rng)
        i = r.restore("r", cls, ps, data, fields)
        if i is not None:
            peer = (b"B" if cls == "A" else b"A" if cls == "B" else b"S") + G.Base.scalarmult(7 + k).to_bytes()
            if k % 4 == 3:
                # reflection of the message the blob describes: read from a SIBLING restored from the same state, so
                # that the instance under test is not touched before its finish()
                j = r.restore("r-sibling", cls, ps, data, fields)
                if j is not None:
                    peer = peer[:1] + r.t.objs[j].outbound_message
            r.start("r", b"")                                        # a restored instance never sends again
            r.serialize("r")                                         # and serializes to the same data
            r.finish("r", peer)
        traces.append(r.json())
    # direction (ii): state produced by the tree parses per the released format, on every class and set
    for k, (ps, g, cls, x) in enumerate(plan[::2] if not thorough else plan):
        ids = idl[(k + 1) % len(idl)]
        r = Run("tree-blob/%s/%s/%d" % (g, cls, k), uni)
        r.new("a", cls, ps, pws[(k + 2) % len(pws)], ids[0], ids[1] if cls != "S" else b"")
        r.start("a", mp.stream_for(g, x % uni.group(g).order(), redraws=k % 2))
        blob = r.serialize("a")
        if blob is not None:
            fields = _json.loads(blob.decode("ascii"))
            r.restore("a2", cls, ps, render(fields, (k + 2) % 5, ctx.rng), fields)
        traces.append(r.json())
    ctx.validate(traces, uni, what="persisted format")
