"""writes MANIFEST.json from the table below (kept valid at all times)"""
import json, os
V = os.path.dirname(os.path.dirname(os.path.abspath(__file__)))
props = [json.loads(l) for l in open(os.path.join(V, "properties.jsonl"))]
CLAIMED = {
 "C01": ("model_checking",
         "TLC proves Agreement (and single-use, entropy, persistence invariants) on the TLA+ session model over toy groups: every interleaving of one exchange with crash/restore on a 5-element group, and every (password class, x, y) on one schedule for larger toy groups; every (pairing, w, x, y) exchange of the quick groups is then executed on the real code (the library's own IntegerGroup and its own Ed25519 code over toy curves) and each recorded trace is validated byte-for-byte by TLC against the same specification with real SHA-256/HKDF; shipped parameter sets are exercised on an edge-scalar grid.",
         "TLC 1.8; BigNat/SHA-256 module overrides (java.math.BigInteger, MessageDigest); SHA-256 injective in the symbolic runs; all scalars only on toy groups, edges+random at full size",
         "TLA+ model checked by TLC + trace validation of real executions against the spec", "6/C01"),
 "C05": ("model_checking",
         "TLC proves StrictDecode on toy groups: over every byte string of length 0..2 (1- and 2-byte integer groups) and every (y, sign) below a bound plus length/high-bit variants on toy Edwards curves, the decoder the specification uses accepts exactly the canonical encodings of subgroup members (not the identity on Edwards) and re-encodes them to themselves. The same complete string domains are pushed through the real bytes_to_element (table events) and through finish() of started instances; for the four shipped groups TLC computes adversarial encodings from the specification (8 torsion points, subgroup points shifted by torsion, off-curve y, y>=Q, sign bit on x=0, wrong lengths, 0, 1, p-1, p, p+1, non-members) and the real code's verdicts are validated against the specification.",
         "TLC 1.8; BigNat overrides; toy curves run the library's own ed25519_basic.py with its four constants substituted at AST level; at full size only the constructed classes are tried",
         "TLA+ model checked by TLC + table/trace validation of the real decoder against the spec", "6/C05"),
 "C06": ("model_checking",
         "TLC explores, for each class, a fresh and a revived instance receiving every side byte 0..255 in front of every element encoding of a toy group (own element included) and the empty message, and proves SideRefusals/NeverKeyForWrongSide. The same enumeration (257 labels x 3 classes x fresh/restored, every fifth case reflecting the own element) is executed on the real code on toy groups and, for a label sample (all labels in thorough), on the four shipped sets; each trace is validated by TLC.",
         "TLC 1.8; BigNat overrides; unknown side bytes only need to raise (any exception)",
         "TLA+ model checked by TLC + trace validation", "6/C06"),
 "C07": ("model_checking",
         "MC_History: without a history variable the state graph of one instance lineage under the 9-letter call alphabet (every failing call included) is finite, so TLC checks AtMostOneMsg/AtMostOneKey/NoMsgFromRestored/ScalarStable/EntropyOnlyInStart for histories of unbounded length; with a history variable TLC emits every history of depth 4 (quick) / 5 (thorough) with the outcome classes the specification allows, each is replayed into the real code (toy integer group and toy curve, all three classes), its outcome classes compared and its trace (including xy_scalar of every serialize()) validated byte-for-byte by TLC; random deeper histories run on the shipped sets.",
         "TLC 1.8; a retry after a finish() that raised may be processed or refused (the property only forbids a second key)",
         "TLA+ model checked by TLC; TLC-generated behaviours replayed into the code; trace validation", "6/C07"),
 "C08": ("model_checking",
         "MC_Persist: one lineage with any number (<=3) of serialize/restore steps persisting any copy, all (w,x) of a toy group, one finish() with every inbound message class on any copy: RestoreEquivalent, SameOutcomes, SerializeStable, SerializePure proved by TLC. Replayed on toy groups over (class, w, x, 0..3 restores, 7 inbound classes) and on the four shipped sets with binary passwords/identities; every serialize() output is checked for printable ASCII and exact field values by TLC.",
         "TLC 1.8; BigNat overrides; JSON parsed by Python's json",
         "TLA+ model checked by TLC + trace validation", "6/C08"),
 "C09": ("model_checking",
         "MC_Restore: state saved by each class under each of 6 parameter sets (base; M, N, S changed one at a time; same subgroup with another generator; another group) offered to from_serialized of each class under each set: RestoreSound holds except for the generator-only pairs (finding F6), which TLC is required to find. The same matrix runs on the real code (toy integer group, toy curve, 4 shipped sets plus same-group seed variants) with trace validation; silent restores with a different outbound message are reported unless they are exactly F6.",
         "TLC 1.8; BigNat overrides; F6 is a listed known finding",
         "TLA+ model checked by TLC + trace validation", "6/C09"),
 "C13": ("model_checking",
         "MC_Axioms: TLC checks commutativity, associativity, identity, inverse, closure, encoding injectivity, n-fold addition, dependence on n mod q and the three distributive laws of the specification's value-level group operations exhaustively over all triples of subgroup elements and all (a, b, m in [-q,2q], n) on toy integer groups and toy Edwards curves. The real element API is then driven over complete operation tables (add, scalarmult for every n in [-q,2q], ==, !=, negate, subtract; operands obtained through 7 different API paths incl. results of operations, Zero on either side, decoded elements; type of every result and whether the result accepts a negative scalar) on toy groups running the library's own code, and over edge/random operands on the four shipped groups; every table row is validated by TLC against the specification.",
         "TLC 1.8; BigNat overrides; full-size operands are edge cases + seeded random, not all",
         "TLA+ model checked by TLC + table validation of the real element API", "6/C13"),
}
checks = []
for p in props:
    pid = p["id"]
    if pid in CLAIMED:
        cat, text, note, tech, ref = CLAIMED[pid]
        checks.append({"property_id": pid, "quick_cmd": "./check %s --tier quick" % pid,
                       "thorough_cmd": "./check %s --tier thorough" % pid,
                       "evidence_file": "evidence/%s.json" % pid,
                       "replay_cmd_template": "./check %s --replay {path}" % pid,
                       "engine": "tlc", "level_claimed": {"category": cat, "text": text, "design_ref": "DESIGN.md section " + ref},
                       "level_note": note, "technique": tech})
na = [{"property_id": p["id"], "reason": "check under construction in this round: the TLA+ model and trace binding for it are not committed yet (planned per DESIGN.md section 6)"}
      for p in props if p["id"] not in CLAIMED]
m = {"version": 1,
     "setup_cmd": "mkdir -p build/classes && javac -d build/classes -cp /opt/veriftools/tla/tla2tools.jar spec/java/BigNat.java",
     "hooks": {"guard": "SPAKE2_VERIF", "enable": "no source hooks: the tracer wraps the public API from outside /repo; checks import /repo/src directly", "baseline_off_cmd": "cd /repo && /venv/bin/python -m pytest -ra -q -p no:cacheprovider --timeout=900 --continue-on-collection-errors src/spake2", "source_commits": [], "add_only": True},
     "engines": [{"name": "tlc", "path": "harness/tlc.sh", "serves_properties": sorted(CLAIMED), "kind_free_text": "TLC 1.8 explicit-state model checker on the TLA+ specification in spec/ (native toy instance for exhaustive model checking; BigNat instance with Java overrides for trace validation)"}],
     "checks": checks, "not_applicable": na,
     "notes": "All checks: ./check <id> [--tier quick|thorough]; exit 0 held, 1 VIOLATION, 2 machinery failure. See DESIGN.md."}
json.dump(m, open(os.path.join(V, "MANIFEST.json"), "w"), indent=1)
print("claimed", sorted(CLAIMED), "n/a", len(na))
