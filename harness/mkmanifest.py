"""writes MANIFEST.json from the table below (kept valid at all times)"""
import json, os
V = os.path.dirname(os.path.dirname(os.path.abspath(__file__)))
props = [json.loads(l) for l in open(os.path.join(V, "properties.jsonl"))]
CLAIMED = {
 "C01": ("model_checking",
         "TLC proves Agreement (and single-use, entropy, persistence invariants) on the TLA+ session model over toy groups: every interleaving of one exchange with crash/restore on a 5-element group, and every (password class, x, y) on one schedule for larger toy groups; every (pairing, w, x, y) exchange of the quick groups is then executed on the real code (the library's own IntegerGroup and its own Ed25519 code over toy curves) and each recorded trace is validated byte-for-byte by TLC against the same specification with real SHA-256/HKDF; shipped parameter sets are exercised on an edge-scalar grid.",
         "TLC 1.8; BigNat/SHA-256 module overrides (java.math.BigInteger, MessageDigest); SHA-256 injective in the symbolic runs; all scalars only on toy groups, edges+random at full size",
         "TLA+ model checked by TLC + trace validation of real executions against the spec", "6/C01"),
}
checks = []
for p in props:
    pid = p["id"]
    if pid in CLAIMED:
        cat, text, note, tech, ref = CLAIMED[pid]
        checks.append({"property_id": pid, "quick_cmd": "./check %s --tier quick" % pid,
                       "thorough_cmd": "./check %s --tier thorough" % pid,
                       "evidence_file": "evidence/%s.json" % pid,
                       "replay_cmd_template": "./check %s --replay {path}" % pid,
                       "engine": "tlc", "level_claimed": {"category": cat, "text": text, "design_ref": "DESIGN.md section " + ref},
                       "level_note": note, "technique": tech})
na = [{"property_id": p["id"], "reason": "check under construction in this round: the TLA+ model and trace binding for it are not committed yet (planned per DESIGN.md section 6)"}
      for p in props if p["id"] not in CLAIMED]
m = {"version": 1,
     "setup_cmd": "mkdir -p build/classes && javac -d build/classes -cp /opt/veriftools/tla/tla2tools.jar spec/java/BigNat.java",
     "hooks": {"guard": "SPAKE2_VERIF", "enable": "no source hooks: the tracer wraps the public API from outside /repo; checks import /repo/src directly", "baseline_off_cmd": "cd /repo && /venv/bin/python -m pytest -ra -q -p no:cacheprovider --timeout=900 --continue-on-collection-errors src/spake2", "source_commits": [], "add_only": True},
     "engines": [{"name": "tlc", "path": "harness/tlc.sh", "serves_properties": sorted(CLAIMED), "kind_free_text": "TLC 1.8 explicit-state model checker on the TLA+ specification in spec/ (native toy instance for exhaustive model checking; BigNat instance with Java overrides for trace validation)"}],
     "checks": checks, "not_applicable": na,
     "notes": "All checks: ./check <id> [--tier quick|thorough]; exit 0 held, 1 VIOLATION, 2 machinery failure. See DESIGN.md."}
json.dump(m, open(os.path.join(V, "MANIFEST.json"), "w"), indent=1)
print("claimed", sorted(CLAIMED), "n/a", len(na))
