"""writes MANIFEST.json from the table below (kept valid at all times)"""
import json, os
V = os.path.dirname(os.path.dirname(os.path.abspath(__file__)))
props = [json.loads(l) for l in open(os.path.join(V, "properties.jsonl"))]
CLAIMED = {
 "C01": ("model_checking",
         "TLC proves Agreement (and single-use, entropy, persistence invariants) on the TLA+ session model over toy groups: every interleaving of one exchange with crash/restore on a 5-element group, and every (password class, x, y) on one schedule for larger toy groups; every (pairing, w, x, y) exchange of the quick groups is then executed on the real code (the library's own IntegerGroup and its own Ed25519 code over toy curves) and each recorded trace is validated byte-for-byte by TLC against the same specification with real SHA-256/HKDF; shipped parameter sets are exercised on an edge-scalar grid.",
         "TLC 1.8; BigNat/SHA-256 module overrides (java.math.BigInteger, MessageDigest); SHA-256 injective in the symbolic runs; all scalars only on toy groups, edges+random at full size",
         "TLA+ model checked by TLC + trace validation of real executions against the spec", "6/C01"),
 "C05": ("model_checking",
         "TLC proves StrictDecode on toy groups: over every byte string of length 0..2 (1- and 2-byte integer groups) and every (y, sign) below a bound plus length/high-bit variants on toy Edwards curves, the decoder the specification uses accepts exactly the canonical encodings of subgroup members (not the identity on Edwards) and re-encodes them to themselves. The same complete string domains are pushed through the real bytes_to_element (table events) and through finish() of started instances; for the four shipped groups TLC computes adversarial encodings from the specification (8 torsion points, subgroup points shifted by torsion, off-curve y, y>=Q, sign bit on x=0, wrong lengths, 0, 1, p-1, p, p+1, non-members) and the real code's verdicts are validated against the specification.",
         "TLC 1.8; BigNat overrides; toy curves run the library's own ed25519_basic.py with its four constants substituted at AST level; at full size only the constructed classes are tried",
         "TLA+ model checked by TLC + table/trace validation of the real decoder against the spec", "6/C05"),
 "C06": ("model_checking",
         "TLC explores, for each class, a fresh and a revived instance receiving every side byte 0..255 in front of every element encoding of a toy group (own element included) and the empty message, and proves SideRefusals/NeverKeyForWrongSide. The same enumeration (257 labels x 3 classes x fresh/restored, every fifth case reflecting the own element) is executed on the real code on toy groups and, for a label sample (all labels in thorough), on the four shipped sets; each trace is validated by TLC.",
         "TLC 1.8; BigNat overrides; unknown side bytes only need to raise (any exception)",
         "TLA+ model checked by TLC + trace validation", "6/C06"),
 "C07": ("model_checking",
         "MC_History: without a history variable the state graph of one instance lineage under the 9-letter call alphabet (every failing call included) is finite, so TLC checks AtMostOneMsg/AtMostOneKey/NoMsgFromRestored/ScalarStable/EntropyOnlyInStart for histories of unbounded length; with a history variable TLC emits every history of depth 4 (quick) / 5 (thorough) with the outcome classes the specification allows, each is replayed into the real code (toy integer group and toy curve, all three classes), its outcome classes compared and its trace (including xy_scalar of every serialize()) validated byte-for-byte by TLC; random deeper histories run on the shipped sets.",
         "TLC 1.8; a retry after a finish() that raised may be processed or refused (the property only forbids a second key)",
         "TLA+ model checked by TLC; TLC-generated behaviours replayed into the code; trace validation", "6/C07"),
 "C08": ("model_checking",
         "MC_Persist: one lineage with any number (<=3) of serialize/restore steps persisting any copy, all (w,x) of a toy group, one finish() with every inbound message class on any copy: RestoreEquivalent, SameOutcomes, SerializeStable, SerializePure proved by TLC. Replayed on toy groups over (class, w, x, 0..3 restores, 7 inbound classes) and on the four shipped sets with binary passwords/identities; every serialize() output is checked for printable ASCII and exact field values by TLC.",
         "TLC 1.8; BigNat overrides; JSON parsed by Python's json",
         "TLA+ model checked by TLC + trace validation", "6/C08"),
 "C09": ("model_checking",
         "MC_Restore: state saved by each class under each of 6 parameter sets (base; M, N, S changed one at a time; same subgroup with another generator; another group) offered to from_serialized of each class under each set: RestoreSound holds except for the generator-only pairs (finding F6), which TLC is required to find. The same matrix runs on the real code (toy integer group, toy curve, 4 shipped sets plus same-group seed variants) with trace validation; silent restores with a different outbound message are reported unless they are exactly F6.",
         "TLC 1.8; BigNat overrides; F6 is a listed known finding",
         "TLA+ model checked by TLC + trace validation", "6/C09"),
 "C13": ("model_checking",
         "MC_Axioms: TLC checks commutativity, associativity, identity, inverse, closure, encoding injectivity, n-fold addition, dependence on n mod q and the three distributive laws of the specification's value-level group operations exhaustively over all triples of subgroup elements and all (a, b, m in [-q,2q], n) on toy integer groups and toy Edwards curves. The real element API is then driven over complete operation tables (add, scalarmult for every n in [-q,2q], ==, !=, negate, subtract; operands obtained through 7 different API paths incl. results of operations, Zero on either side, decoded elements; type of every result and whether the result accepts a negative scalar) on toy groups running the library's own code, and over edge/random operands on the four shipped groups; every table row is validated by TLC against the specification.",
         "TLC 1.8; BigNat overrides; full-size operands are edge cases + seeded random, not all",
         "TLA+ model checked by TLC + table validation of the real element API", "6/C13"),
 "C11": ("model_checking",
         "MC_Randrange: for every width 1..256 (all 256 first draws; all two-draw logs for small widths) and for 2-byte widths (quick: edge widths; thorough: every width 257..1024; all 65536 first draws each) TLC proves that the masked candidate is the draw mod 2^bits, that each value of the range has exactly 2^(8nb-bits) accepting draws, nothing outside is returned and acceptance probability is >= 1/2; EntropyOnlyInStart is an invariant of every session model. The real unbiased_randrange is tabulated over every first draw for the same widths and validated by TLC; streams all-zero, all-ones, q-1, q, q+1, top byte just above the mask and forced redraws run through unbiased_randrange and through sessions on the three shipped q and L (64-byte reduction); every session trace of every check carries the entropy log, so entropy drawn outside start() is rejected anywhere.",
         "TLC 1.8; BigNat overrides; 3-byte and wider ranges are covered by edge streams, not by complete enumeration",
         "TLA+ model checked by TLC + table/trace validation of the real sampler", "6/C11"),
 "C12": ("model_checking",
         "MC_EdFormulas: on toy twisted Edwards curves with 8L points (cofactor 8, Q = 5 mod 8) TLC checks the three line-by-line transcriptions of the library's formulas against the affine Edwards law for ALL pairs of curve points (identity, equal, opposite, all torsion points) in every projective scaling of a set (all 36 scalings of the 40-point curve in thorough), completeness of the affine law, both ladders, the side condition of the dedicated addition inside the fast ladder, and that the dedicated formula really fails outside its side condition. The library's own three functions (toy constants substituted at AST level) are run on the same cases and compared projectively by TLC; on the real curve, points computed by TLC from the specification (8 torsion points, orders L/2L/4L/8L, random multiples) with random scalings are pushed through the three functions and compared with the affine law evaluated by TLC over GF(2^255-19).",
         "This is exhaustive over small fields plus randomized identity testing at full size (the functions are checked to be straight-line arithmetic, so a wrong formula survives one random full-size point with probability < 2^-240); it is NOT a proof of the polynomial identities over GF(2^255-19)",
         "TLA+ model checked by TLC + table validation of the library's formulas", "6/C12"),
 "C14": ("model_checking",
         "MC_Derive: on toy groups the maps after HKDF are total functions of a small number; TLC enumerates every h in [0,p) resp. every y in [0,Q) and proves in-subgroup/non-identity except for the degenerate h of integer groups (finding F7, which TLC must exhibit). The real password_to_scalar and arbitrary_element are run on a password/seed list (empty, >1 hash block, NULs, non-ASCII, random) on toy and shipped groups and validated byte-exact by TLC with HKDF/HMAC defined in TLA+ over real SHA-256; live M, N, S of the four shipped sets are compared with the released constants; the specification itself is validated against the published P2S/AE/HKDF vectors (Published.tla).",
         "TLC 1.8; BigNat overrides (bignum primitives and SHA-256 compression are foreign, HKDF is TLA+); F7 is a listed known finding",
         "TLA+ model checked by TLC + event validation of the real derivations", "6/C14"),
 "C15": ("model_checking",
         "MC_Codec: every maxval below 2^9 (quick) / 2^12 (thorough) and every n <= maxval: big-endian, exact width, inverse, n > maxval raises, size_bytes minimal; scalar and element codecs of toy groups injective and fixed-width. The real functions are tabulated over the same complete domain and validated by TLC, plus boundary values 2^(8k)-1, 2^(8k), 2^(8k)+1 up to 385 bytes, all scalars/elements of toy groups, edge/random scalars and elements of the shipped groups.",
         "TLC 1.8; BigNat overrides",
         "TLA+ model checked by TLC + table validation of the real codecs", "6/C15"),
 "C17": ("model_checking",
         "MC_Transcript (SHA-256 as injective token): over all tuples of short strings (empty, prefixes/suffixes, ('ab','b') vs ('a','bb')) with fixed-width X, Y, K, equal keys imply equal tuples; the symmetric form ignores message order and binds everything else; without the fixed width the raw concatenation is ambiguous (witness). The real finalize functions are run on a small-alphabet domain and on realistic sizes and compared byte-exact with the TLA+ definition evaluated by TLC with real SHA-256 (anchored by the published finalize vectors).",
         "TLC 1.8; SHA-256 modelled as collision-free in the symbolic run",
         "TLA+ model checked by TLC + event validation of the real functions", "6/C17"),
 "C18": ("model_checking",
         "Specification predicates evaluated by TLC on the live constants of the four shipped sets (dumped by the harness): Miller-Rabin (24 bases, written in TLA+) for p, q, Q, L; q | p-1; generator of order exactly q; Ed25519 field, d non-square, -1 square, RFC 8032 base point of order L, point count 8L by a Hasse certificate (a point of order exactly 8L found by TLC and uniqueness of the multiple in the Hasse interval); M, N, S pairwise distinct non-identity subgroup members different from the generator and equal to the released constants; equality with the published constants; Ed25519 default. MC_Ctor: the constructor's acceptance test accepts exactly generators whose order divides q, for every g of small (p,q), in the model and on the real constructor.",
         "primality is probabilistic (error < 4^-24 per composite); the point count relies on Hasse's theorem; published.json was transcribed once from the pinned tree and RFC 8032",
         "TLA+ predicates evaluated by TLC on dumped constants + MC of the constructor test", "6/C18"),
}
checks = []
for p in props:
    pid = p["id"]
    if pid in CLAIMED:
        cat, text, note, tech, ref = CLAIMED[pid]
        checks.append({"property_id": pid, "quick_cmd": "./check %s --tier quick" % pid,
                       "thorough_cmd": "./check %s --tier thorough" % pid,
                       "evidence_file": "evidence/%s.json" % pid,
                       "replay_cmd_template": "./check %s --replay {path}" % pid,
                       "engine": "tlc", "level_claimed": {"category": cat, "text": text, "design_ref": "DESIGN.md section " + ref},
                       "level_note": note, "technique": tech})
na = [{"property_id": p["id"], "reason": "check under construction in this round: the TLA+ model and trace binding for it are not committed yet (planned per DESIGN.md section 6)"}
      for p in props if p["id"] not in CLAIMED]
m = {"version": 1,
     "setup_cmd": "mkdir -p build/classes && javac -d build/classes -cp /opt/veriftools/tla/tla2tools.jar spec/java/BigNat.java",
     "hooks": {"guard": "SPAKE2_VERIF", "enable": "no source hooks: the tracer wraps the public API from outside /repo; checks import /repo/src directly", "baseline_off_cmd": "cd /repo && /venv/bin/python -m pytest -ra -q -p no:cacheprovider --timeout=900 --continue-on-collection-errors src/spake2", "source_commits": [], "add_only": True},
     "engines": [{"name": "tlc", "path": "harness/tlc.sh", "serves_properties": sorted(CLAIMED), "kind_free_text": "TLC 1.8 explicit-state model checker on the TLA+ specification in spec/ (native toy instance for exhaustive model checking; BigNat instance with Java overrides for trace validation)"}],
     "checks": checks, "not_applicable": na,
     "notes": "All checks: ./check <id> [--tier quick|thorough]; exit 0 held, 1 VIOLATION, 2 machinery failure. See DESIGN.md."}
json.dump(m, open(os.path.join(V, "MANIFEST.json"), "w"), indent=1)
print("claimed", sorted(CLAIMED), "n/a", len(na))
