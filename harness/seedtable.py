"""Regenerate the table of seeded changes at the end of DESIGN.md section 10.5 from seeded/*/result.json."""
import json, os, re
V = os.path.dirname(os.path.dirname(os.path.abspath(__file__)))
rows = []
for n in sorted(os.listdir(os.path.join(V, "seeded"))):
    p = os.path.join(V, "seeded", n, "result.json")
    if not os.path.exists(p):
        continue
    r = json.load(open(p))
    caught = [c for c, v in r["checks"].items() if v["rc"] == 1]
    meta = json.load(open(os.path.join(V, "seeded", n, "meta.json")))
    first = r["checks"][caught[0]]["first"] if caught else \
        "not counted: outside the property as stated (see text)" if meta.get("status") == "outside-property" else "NOT REPORTED"
    rows.append("| %s | %s | %s | %s |" % (n, r["property"], ",".join(caught) or "-", first[:110].replace("|", "/")))
head = "| seeded change | property | caught by | first verdict |"
t = open(os.path.join(V, "DESIGN.md")).read()
i = t.index(head)
t = t[:i] + head + "\n|---|---|---|---|\n" + "\n".join(rows) + "\n"
open(os.path.join(V, "DESIGN.md"), "w").write(t)
print(len(rows), "rows;", sum(1 for r in rows if "NOT REPORTED" in r), "not reported")
