------------------------------ MODULE Hashing ------------------------------
(***************************************************************************)
(* FULL-SIZE instance of the hash layer: SHA-256 is the real function      *)
(* (BigNat override), HMAC and HKDF (RFC 2104, RFC 5869) are defined here  *)
(* in TLA+ on top of it.  groups.py: expand_password,                      *)
(* expand_arbitrary_element_seed.                                          *)
(***************************************************************************)
EXTENDS Num, Bytes

HashIsSymbolic == FALSE
Hash(b) == Sha256(b)

HmacSha256(key, msg) ==
  LET k0   == IF Len(key) > 64 THEN Sha256(key) ELSE key
      kp   == k0 \o Zeros(64 - Len(k0))
      ipad == [i \in 1..64 |-> ByteXor(kp[i], 54)]
      opad == [i \in 1..64 |-> ByteXor(kp[i], 92)]
  IN Sha256(opad \o Sha256(ipad \o msg))

HkdfExtract(salt, ikm) == HmacSha256(IF salt = <<>> THEN Zeros(32) ELSE salt, ikm)

RECURSIVE HkdfBlocks(_, _, _, _, _)
(* T(i) || T(i+1) || ... until n bytes are available                          *)
HkdfBlocks(prk, info, prev, i, n) ==
  IF n <= 0 THEN <<>>
  ELSE LET t == HmacSha256(prk, prev \o info \o <<i>>)
       IN t \o HkdfBlocks(prk, info, t, i + 1, n - 32)
HkdfExpand(prk, info, n) == Take(HkdfBlocks(prk, info, <<>>, 1, n), n)
Hkdf(ikm, salt, info, n) == HkdfExpand(HkdfExtract(salt, ikm), info, n)

InfoPw   == StrToBytes("SPAKE2 pw")
InfoSeed == StrToBytes("SPAKE2 arbitrary element")
ExpandPw(pw, n)     == Hkdf(pw, <<>>, InfoPw, n)
ExpandSeed(seed, n) == Hkdf(seed, <<>>, InfoSeed, n)
=============================================================================
