-------------------------------- MODULE Num --------------------------------
(***************************************************************************)
(* The number signature of the specification, FULL-SIZE instance: numbers  *)
(* are BigNat values.  spec/native/Num.tla is the other instance (TLC      *)
(* integers).  Every other module EXTENDS Num and uses only the N*         *)
(* operators on numbers, so there is exactly one text of every formula;    *)
(* which instance is meant is decided by the module search path.           *)
(***************************************************************************)
EXTENDS BigNat, Integers, Sequences

NumIsBig == TRUE
NLit(k)          == BFromInt(k)            \* small literal
NAdd(a, b)       == BAdd(a, b)
NSub(a, b)       == BSub(a, b)             \* a >= b
NMul(a, b)       == BMul(a, b)
NDiv(a, b)       == BDiv(a, b)
NMod(a, b)       == BMod(a, b)
NExpMod(a, e, m) == BModExp(a, e, m)
NLt(a, b)        == BLt(a, b)
NLe(a, b)        == ~BLt(b, a)
NIsZero(a)       == a = <<>>
NBitLen(a)       == BBitLen(a)             \* a TLA+ Int
NOdd(a)          == BOdd(a)
NShr(a, k)       == BShr(a, k)             \* k a TLA+ Int
NLowBits(a, k)   == BAndLow(a, k)          \* a mod 2^k
NToInt(a)        == BToInt(a)
NFromBytes(bs)   == BFromBytes(bs)         \* big-endian
NToBytes(a, len) == BToBytes(a, len)       \* big-endian, exactly len bytes
NFromBytesLt(bs, bound) ==
  LET v == BFromBytes(bs) IN [ok |-> BLt(v, bound), v |-> IF BLt(v, bound) THEN v ELSE <<>>]
=============================================================================
