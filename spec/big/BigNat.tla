------------------------------ MODULE BigNat ------------------------------
(***************************************************************************)
(* Natural numbers of arbitrary size as canonical big-endian byte          *)
(* sequences (no leading zero byte; zero is <<>>).  TLC integers are 32    *)
(* bit, the groups of python-spake2 have 160..3072 bit numbers, so the     *)
(* full-size instance of the specification computes on this                *)
(* representation.  Every operator below has a reference definition in     *)
(* TLA+ (evaluable for values below 2^31) and is overridden at run time by *)
(* spec/java/BigNat.java (java.math.BigInteger, MessageDigest).            *)
(* BigNatCheck.tla cross-validates the overrides against TLC's native      *)
(* arithmetic and against published SHA-256/HKDF vectors.                  *)
(***************************************************************************)
EXTENDS Naturals, Sequences

RECURSIVE RefVal(_)
RefVal(a) == IF a = <<>> THEN 0
             ELSE 256 * RefVal(SubSeq(a, 1, Len(a) - 1)) + a[Len(a)]
RECURSIVE RefSeq(_)
RefSeq(n) == IF n = 0 THEN <<>> ELSE Append(RefSeq(n \div 256), n % 256)
RECURSIVE RefExp(_, _, _)
RefExp(a, e, m) == IF e = 0 THEN 1 % m
                   ELSE LET h == RefExp(a, e \div 2, m)
                            hh == (h * h) % m
                        IN IF e % 2 = 1 THEN (hh * (a % m)) % m ELSE hh
RECURSIVE RefBits(_)
RefBits(n) == IF n = 0 THEN 0 ELSE 1 + RefBits(n \div 2)
RECURSIVE RefPow2(_)
RefPow2(k) == IF k = 0 THEN 1 ELSE 2 * RefPow2(k - 1)

BAdd(a, b)       == RefSeq(RefVal(a) + RefVal(b))
BSub(a, b)       == RefSeq(RefVal(a) - RefVal(b))          \* a >= b required
BMul(a, b)       == RefSeq(RefVal(a) * RefVal(b))
BDiv(a, b)       == RefSeq(RefVal(a) \div RefVal(b))
BMod(a, b)       == RefSeq(RefVal(a) % RefVal(b))
BModExp(a, e, m) == RefSeq(RefExp(RefVal(a), RefVal(e), RefVal(m)))
BLt(a, b)        == RefVal(a) < RefVal(b)
BBitLen(a)       == RefBits(RefVal(a))
BOdd(a)          == RefVal(a) % 2 = 1
BShr(a, k)       == RefSeq(RefVal(a) \div RefPow2(k))
BAndLow(a, k)    == RefSeq(RefVal(a) % RefPow2(k))
BFromInt(k)      == RefSeq(k)
BToInt(a)        == RefVal(a)
BFromBytes(bs)   == RefSeq(RefVal(bs))
BToBytes(a, len) == [i \in 1..(len - Len(a)) |-> 0] \o a

(* SHA-256 (FIPS 180-4).  No TLA+ body is given: 32-bit word arithmetic does *)
(* not fit TLC's integers.  The override is validated against the FIPS and  *)
(* RFC 5869 vectors in BigNatCheck / Published.                             *)
Sha256(bs) == CHOOSE h \in Seq(0..255) : Len(h) = 32

RECURSIVE RefXor(_, _, _)
RefXor(x, y, k) == IF k = 0 THEN 0
                   ELSE 2 * RefXor(x \div 2, y \div 2, k - 1) + ((x + y) % 2)
ByteXor(a, b) == RefXor(a, b, 8)

(* conversions between hex / ASCII strings and byte sequences; TLC has no   *)
(* string indexing, so these exist only as overrides                        *)
HexToBytes(s)  == CHOOSE b \in Seq(0..255) : TRUE
BytesToHex(bs) == CHOOSE s \in STRING : TRUE
StrToBytes(s)  == CHOOSE b \in Seq(0..255) : TRUE
IsHexString(s) == CHOOSE b \in BOOLEAN : TRUE
=============================================================================
