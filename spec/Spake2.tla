------------------------------- MODULE Spake2 -------------------------------
(***************************************************************************)
(* python-spake2 as a state machine: any number of session instances       *)
(* (SPAKE2_A, SPAKE2_B, SPAKE2_Symmetric) over any parameter sets, the     *)
(* network (every message ever returned by start(), plus whatever an       *)
(* attacker can craft), the disk (every blob ever returned by              *)
(* serialize()), crash/restore, and every public call in every state -     *)
(* including the calls that must fail.                                     *)
(*                                                                         *)
(* Each public call is one action; its linearization point is its return.  *)
(* The outcome and successor state of a call are the functional rules of   *)
(* Spake2Core, so this module only adds the environment: which calls are   *)
(* possible, with which arguments, and what is remembered about them.      *)
(*                                                                         *)
(* The universe (parameter sets, passwords, identities, scalar choices,    *)
(* attacker strings, bounds) is a record of constants supplied by the      *)
(* MC_* modules.  Properties C01, C02, C06-C09, C11 (entropy), C16 are     *)
(* stated here over the history variable `aux`.                            *)
(***************************************************************************)
EXTENDS Spake2Core, FiniteSets

CONSTANTS
  ParamSets,      \* set of parameter-set records [grp, M, N, S]
  Passwords,      \* set of byte strings
  IdPairs,        \* set of <<idA, idB>>  (Symmetric uses the first)
  ClassSet,       \* subset of {"A","B","S"} that New may create
  MaxInst,        \* bound on the number of instances (fresh + restored)
  MaxRestore,     \* bound on the number of Restore steps
  ScalarChoices(_),  \* group |-> set of scalars the entropy function can produce
  Attacker(_, _)     \* <<wire, instance>> |-> set of extra byte strings deliverable to it

VARIABLES
  st,     \* sequence of instance records (Spake2Core!NewInst)
  aux,    \* per instance: history of what it was given and returned
  wire,   \* set of messages returned by start() so far
  disk,   \* set of [cls, ps, blob, by] returned by serialize() so far
  nrest   \* number of Restore steps taken
vars == <<st, aux, wire, disk, nrest>>

Inst == 1..Len(st)
NoOutcome == [t |-> "none", v |-> <<>>]
NewAux(origin) == [origin |-> origin,   \* 0: created by a constructor; i: restored from state saved by i
                   nmsg |-> 0,          \* messages returned by start()
                   nkey |-> 0,          \* keys returned by finish()
                   nfin |-> 0,          \* finish() calls made
                   early |-> FALSE,     \* finish() was called before start()
                   inb |-> <<>>,        \* argument of the finish() that returned the key
                   key |-> <<>>,        \* the key it returned
                   arg1 |-> <<>>,       \* argument of the first finish()
                   res1 |-> NoOutcome,  \* outcome of the first finish()
                   entropy |-> 0,       \* calls that consumed entropy
                   lastc |-> "none"]    \* class of the outcome of the last call on this instance

OutcomeClass(o) == IF o.t = "err" THEN o.v ELSE o.t

Init == /\ st = <<>> /\ aux = <<>> /\ wire = {} /\ disk = {} /\ nrest = 0

New(cls, ps, pw, ids) ==
  /\ Len(st) < MaxInst
  /\ st' = Append(st, NewInst(cls, ps, pw, ids[1], IF cls = "S" THEN <<>> ELSE ids[2]))
  /\ aux' = Append(aux, NewAux(0))
  /\ UNCHANGED <<wire, disk, nrest>>

Start(i, x) ==
  \E o \in StartOutcomes(st[i], x) :
  /\ st' = [st EXCEPT ![i] = StartNext(@, x, o)]
  /\ aux' = [aux EXCEPT ![i].nmsg = @ + (IF IsMsg(o) THEN 1 ELSE 0),
                        ![i].entropy = @ + (IF IsMsg(o) THEN 1 ELSE 0),
                        ![i].lastc = OutcomeClass(o)]
  /\ wire' = IF IsMsg(o) THEN wire \cup {o.v} ELSE wire
  /\ UNCHANGED <<disk, nrest>>

(* start() on an instance that has not started, with an entropy function     *)
(* that raises: the call raises, nothing is sent, no scalar exists           *)
StartFails(i) ==
  /\ ~st[i].started
  /\ st' = [st EXCEPT ![i] = StartFailedNext(@)]
  /\ aux' = [aux EXCEPT ![i].lastc = "Rejected"]
  /\ UNCHANGED <<wire, disk, nrest>>

Finish(i, m) ==
  \E o \in FinishOutcomes(st[i], m) :
    /\ st' = [st EXCEPT ![i] = FinishNext(@, o)]
    /\ aux' = [aux EXCEPT ![i].nkey = @ + (IF IsKey(o) THEN 1 ELSE 0),
                          ![i].nfin = IF @ < 2 THEN @ + 1 ELSE @,     \* 0, 1, many
                          ![i].early = @ \/ ~st[i].started,
                          ![i].inb = IF IsKey(o) THEN m ELSE @,
                          ![i].key = IF IsKey(o) THEN o.v ELSE @,
                          ![i].arg1 = IF aux[i].nfin = 0 THEN m ELSE @,
                          ![i].res1 = IF aux[i].nfin = 0 THEN o ELSE @,
                          ![i].lastc = OutcomeClass(o)]
    /\ UNCHANGED <<wire, disk, nrest>>

Serialize(i) ==
  LET o == SerializeOutcome(st[i]) IN
  /\ o.t = "blob"
  /\ disk' = disk \cup {[cls |-> st[i].cls, ps |-> st[i].ps, blob |-> o.v, by |-> i]}
  /\ aux' = [aux EXCEPT ![i].lastc = "blob"]
  /\ UNCHANGED <<st, wire, nrest>>

(* serialize() before start() raises and changes nothing                      *)
SerializeTooEarly(i) ==
  /\ IsErr(SerializeOutcome(st[i]))
  /\ aux' = [aux EXCEPT ![i].lastc = SerializeOutcome(st[i]).v]
  /\ UNCHANGED <<st, wire, disk, nrest>>

(* crash and revive as one step: serialize() immediately followed by          *)
(* from_serialized() under the same class and parameters                      *)
PersistAndRevive(i) ==
  LET o == SerializeOutcome(st[i]) IN
  /\ o.t = "blob"
  /\ LET r == RestoreOutcome(st[i].cls, st[i].ps, o.v) IN
       /\ r.t = "inst"
       /\ st' = Append(st, r.v)
       /\ aux' = Append([aux EXCEPT ![i].lastc = "blob"], [NewAux(i) EXCEPT !.lastc = "inst"])
  /\ disk' = disk \cup {[cls |-> st[i].cls, ps |-> st[i].ps, blob |-> o.v, by |-> i]}
  /\ nrest' = nrest + 1
  /\ UNCHANGED wire

Restore(cls, ps, d) ==
  LET o == RestoreOutcome(cls, ps, d.blob) IN
  /\ nrest < MaxRestore
  /\ Len(st) < MaxInst
  /\ o.t = "inst"
  /\ st' = Append(st, o.v)
  /\ aux' = Append(aux, [NewAux(d.by) EXCEPT !.lastc = "inst"])
  /\ nrest' = nrest + 1
  /\ UNCHANGED <<wire, disk>>

Deliverable(i) == wire \cup Attacker(wire, st[i])

DoNew       == \E cls \in ClassSet, ps \in ParamSets, pw \in Passwords, ids \in IdPairs : New(cls, ps, pw, ids)
DoStart     == \E i \in Inst : \E x \in ScalarChoices(st[i].ps.grp) : Start(i, x)
DoFinish    == \E i \in Inst : \E m \in Deliverable(i) : Finish(i, m)
DoSerialize == \E i \in Inst : Serialize(i)
DoStartFails == \E i \in Inst : StartFails(i)
DoRestore   == \E d \in disk : \E cls \in ClassSet, ps \in ParamSets : Restore(cls, ps, d)
Next == DoNew \/ DoStart \/ DoFinish \/ DoSerialize \/ DoRestore

Spec == Init /\ [][Next]_vars
(* the same machine with entropy functions that may raise                     *)
NextF == Next \/ DoStartFails
SpecF == Init /\ [][NextF]_vars

(* the class of the last outcome is an observation only (used to print        *)
(* behaviours): models that do not need it hide it with this VIEW             *)
ViewNoLast == <<st, [i \in DOMAIN aux |-> [aux[i] EXCEPT !.lastc = "none"]], wire, disk, nrest>>

(* ---------------------------------------------------------------------- *)
(* properties                                                             *)
(* ---------------------------------------------------------------------- *)
(* the shape of the state (flags are consistent with each other)           *)
TypeOK ==
  /\ Len(aux) = Len(st) /\ nrest \in 0..MaxRestore /\ Len(st) <= MaxInst
  /\ \A i \in Inst :
       LET s == st[i] a == aux[i] IN
       /\ s.cls \in Classes
       /\ s.started \in BOOLEAN /\ s.finished \in BOOLEAN /\ s.gaveKey \in BOOLEAN /\ s.gaveMsg \in BOOLEAN
       /\ s.restored \in BOOLEAN /\ s.hasx \in BOOLEAN /\ s.limbo \in BOOLEAN
       /\ (s.limbo => ~s.restored) /\ (s.limbo /\ ~s.started => a.nmsg = 0 /\ a.nkey = 0)
       /\ (s.gaveKey => s.finished /\ s.started) /\ (s.gaveMsg => s.started /\ ~s.restored)
       /\ (s.started <=> s.hasx) /\ (s.started => Len(s.out) = GESize(s.ps.grp)) /\ (~s.started => s.out = <<>>)
       /\ (s.restored => s.started /\ a.origin \in 1..(i - 1)) /\ (~s.restored => a.origin = 0)
       /\ a.nfin \in 0..2 /\ (a.nfin = 0 <=> ~s.finished) /\ (a.nkey > 0 <=> s.gaveKey)
       /\ (s.gaveMsg <=> a.nmsg > 0)
  /\ \A m \in wire : \E i \in Inst : st[i].gaveMsg /\ m = <<SideByte(st[i].cls)>> \o st[i].out
  /\ \A d \in disk : d.by \in Inst /\ st[d.by].started /\ d.blob = BlobOf(st[d.by])

Peer(c1, c2) == (c1 = "A" /\ c2 = "B") \/ (c1 = "B" /\ c2 = "A") \/ (c1 = "S" /\ c2 = "S")
RECURSIVE Lineage(_)
Lineage(i) == IF aux[i].origin = 0 THEN i ELSE Lineage(aux[i].origin)
SameConfig(i, j) == /\ Peer(st[i].cls, st[j].cls)
                    /\ st[i].pw = st[j].pw /\ st[i].idA = st[j].idA /\ st[i].idB = st[j].idB
                    /\ st[i].ps = st[j].ps
SentBy(j) == <<SideByte(st[j].cls)>> \o st[j].out
(* the first finish() of i was given exactly what j sent                    *)
FirstFinishOn(i, j) == st[j].started /\ aux[i].nfin >= 1 /\ ~aux[i].early /\ aux[i].arg1 = SentBy(j)

(* C01: matching ends that receive each other's unmodified message agree;   *)
(* the only other endings are the two coincidences the protocol refuses     *)
Agreement ==
  \A i, j \in Inst :
    (i # j /\ SameConfig(i, j) /\ st[i].started /\ FirstFinishOn(i, j) /\ FirstFinishOn(j, i)) =>
      LET g     == st[i].ps.grp
          idEnc == GEnc(g, GIdentity(g))
          ri    == aux[i].res1
          rj    == aux[j].res1
      IN IF st[i].out = st[j].out
         THEN IF GRefusesIdentity(g) /\ st[i].out = idEnc
              THEN IsErr(ri) /\ IsErr(rj)            \* the identity is refused before the reflection test
              ELSE ri = Err("ReflectionThwarted") /\ rj = Err("ReflectionThwarted")
         ELSE /\ (GRefusesIdentity(g) /\ st[j].out = idEnc) => IsErr(ri)
              /\ (~GRefusesIdentity(g) \/ (st[i].out # idEnc /\ st[j].out # idEnc))
                    => (IsKey(ri) /\ IsKey(rj) /\ ri = rj)

(* vacuity witnesses: each is the NEGATION of "the interesting case occurs"; *)
(* a model run is expected to VIOLATE it (the check fails if it does not)   *)
AgreedPair(i, j) == i # j /\ SameConfig(i, j) /\ FirstFinishOn(i, j) /\ FirstFinishOn(j, i)
                    /\ IsKey(aux[i].res1) /\ aux[i].res1 = aux[j].res1
NoWitnessAgreement == ~\E i, j \in Inst : AgreedPair(i, j)
NoWitnessAgreementAfterRestore == ~\E i, j \in Inst : AgreedPair(i, j) /\ st[i].restored
NoWitnessReflection == ~\E i \in Inst : aux[i].res1 = Err("ReflectionThwarted")
NoWitnessIdentityRefused ==
  ~\E i, j \in Inst : i # j /\ SameConfig(i, j) /\ FirstFinishOn(i, j) /\ GRefusesIdentity(st[i].ps.grp)
                       /\ st[j].out = GEnc(st[j].ps.grp, GIdentity(st[j].ps.grp)) /\ IsErr(aux[i].res1)

(* C02: two ends with equal keys had identical views, and each received     *)
(* exactly the bytes the other sent.  UsedParamsAgree: same group, same     *)
(* blinding elements of the role pair.                                      *)
UsedParamsAgree(i, j) ==
  /\ st[i].ps.grp = st[j].ps.grp
  /\ IF st[i].cls = "S" THEN st[i].ps.S = st[j].ps.S
     ELSE st[i].ps.M = st[j].ps.M /\ st[i].ps.N = st[j].ps.N
SameView(i, j) ==
  /\ st[i].pw = st[j].pw /\ st[i].idA = st[j].idA /\ st[i].idB = st[j].idB
  /\ aux[i].inb = SentBy(j) /\ aux[j].inb = SentBy(i)
EqualKeys(i, j) == /\ i # j /\ Peer(st[i].cls, st[j].cls) /\ Lineage(i) # Lineage(j)
                   /\ aux[i].nkey > 0 /\ aux[j].nkey > 0 /\ aux[i].key = aux[j].key
NoAgreementUnlessSameView ==
  \A i, j \in Inst : EqualKeys(i, j) => (SameView(i, j) /\ UsedParamsAgree(i, j))

(* C02 modulo the two recorded findings (see KNOWN_FINDINGS.jsonl):            *)
(*  F8 - parameter-only difference and a degenerate scalar;                    *)
(*  F9 - two Symmetric ends that sent the same element get the same substitute *)
F8Degenerate(i, j) ==
  LET g == st[i].ps.grp  q == NToInt(GOrder(g)) IN
  \/ NToInt(GPwScalar(g, st[i].pw)) = 0 \/ NToInt(st[i].x) % q = 0 \/ NToInt(st[j].x) % q = 0
  \/ (st[i].cls = "S" /\ (NToInt(st[i].x) + NToInt(st[j].x)) % q = 0)
F9SameElementSymmetric(i, j) ==
  /\ st[i].cls = "S" /\ st[j].cls = "S" /\ st[i].out = st[j].out /\ aux[i].inb = aux[j].inb
  /\ st[i].pw = st[j].pw /\ st[i].idA = st[j].idA /\ UsedParamsAgree(i, j)
NoAgreementButFindings ==
  \A i, j \in Inst : EqualKeys(i, j) =>
     \/ SameView(i, j) /\ UsedParamsAgree(i, j)
     \/ SameView(i, j) /\ ~UsedParamsAgree(i, j) /\ GOrder(st[i].ps.grp) = GOrder(st[j].ps.grp) /\ F8Degenerate(i, j)
     \/ F9SameElementSymmetric(i, j)

(* C07: single use                                                          *)
AtMostOneMsg  == \A i \in Inst : aux[i].nmsg <= 1 /\ (st[i].restored => aux[i].nmsg = 0)
AtMostOneKey  == \A i \in Inst : aux[i].nkey <= 1
(* C11: entropy is consumed only by a start() that returns a message         *)
EntropyOnlyInStart == \A i \in Inst : aux[i].entropy = aux[i].nmsg
(* C07: the scalar never changes                                             *)
ScalarStable == [][\A i \in Inst : st[i].hasx => (st'[i].hasx /\ st'[i].x = st[i].x)]_vars
(* C08: a restored instance is indistinguishable from its origin: same       *)
(* abstract state, hence the same outcome for every inbound message          *)
RestoreEquivalent ==
  \A j \in Inst : (st[j].restored /\ aux[j].origin # 0) =>
     LET i == aux[j].origin IN
       /\ st[i].cls = st[j].cls
       /\ UsedParamsAgree(i, j) => (Abs(st[j]).out = Abs(st[i]).out /\ Abs(st[j]).x = Abs(st[i]).x
                                    /\ st[j].pw = st[i].pw /\ st[j].idA = st[i].idA /\ st[j].idB = st[i].idB)
       /\ (st[i].ps = st[j].ps) =>
             \A m \in Deliverable(j) :
                Process(st[j], m) = Process(st[i], m)

(* C06: a key is never derived from a message labelled with the wrong side, *)
(* nor from the instance's own element                                      *)
NeverKeyForWrongSide ==
  \A i \in Inst : aux[i].nkey > 0 =>
     /\ aux[i].inb # <<>>
     /\ aux[i].inb[1] = (IF st[i].cls = "A" THEN 66 ELSE IF st[i].cls = "B" THEN 65 ELSE 83)
     /\ Tail(aux[i].inb) # st[i].out

(* C05 as seen by finish(): a key is only derived from the canonical         *)
(* encoding of a subgroup element of exactly the element size                *)
KeyOnlyFromCanonical ==
  \A i \in Inst : aux[i].nkey > 0 =>
     LET g == st[i].ps.grp  body == Tail(aux[i].inb)
     IN Len(body) = GESize(g) /\ GDec(g, body).ok /\ GEnc(g, GDec(g, body).e) = body

(* ---------------------------------------------------------------------- *)
(* refinement: every step of this machine is a step of the value-free     *)
(* Lifecycle machine, whose counting properties (C07, C11) are proved      *)
(* inductively for histories of any length (Lifecycle.tla, Apalache).      *)
(* ---------------------------------------------------------------------- *)
LIds == 1..MaxInst
LMaxScal == 100000          \* scalar tokens of the skeleton: 1 + x for the toy groups' x < q < 100000
LC == INSTANCE Lifecycle WITH
        NIds     <- MaxInst,
        alive    <- [i \in LIds |-> i <= Len(st)],
        started  <- [i \in LIds |-> i <= Len(st) /\ st[i].started],
        finished <- [i \in LIds |-> i <= Len(st) /\ st[i].finished],
        gaveMsg  <- [i \in LIds |-> i <= Len(st) /\ st[i].gaveMsg],
        gaveKey  <- [i \in LIds |-> i <= Len(st) /\ st[i].gaveKey],
        restored <- [i \in LIds |-> i <= Len(st) /\ st[i].restored],
        nmsg     <- [i \in LIds |-> IF i <= Len(st) THEN aux[i].nmsg ELSE 0],
        nkey     <- [i \in LIds |-> IF i <= Len(st) THEN aux[i].nkey ELSE 0],
        entropy  <- [i \in LIds |-> IF i <= Len(st) THEN aux[i].entropy ELSE 0],
        origin   <- [i \in LIds |-> IF i <= Len(st) THEN aux[i].origin ELSE 0],
        saved    <- {d.by : d \in disk},
        NScal    <- LMaxScal,
        scal     <- [i \in LIds |-> IF i <= Len(st) /\ st[i].hasx THEN 1 + (NToInt(st[i].x) % LMaxScal) ELSE 0],
        limbo    <- [i \in LIds |-> i <= Len(st) /\ st[i].limbo]
RefinesLifecycle == LC!StepOK
LifecycleInv == LC!IndInv
=============================================================================
