---------------------------- MODULE MC_Interleave ----------------------------
(***************************************************************************)
(* C16 design check and schedule generator: several concurrent sessions    *)
(* (two exchanges: A with B under one password, S with S under another;    *)
(* or one exchange plus a foreign session), EVERY interleaving of their    *)
(* start / crash-and-revive / finish calls that respects message           *)
(* availability (finish needs the peer's start).  Each instance's outcome  *)
(* must be the one it has when run alone (Isolated), the shared parameter  *)
(* objects never change (SharedUnchanged).  In the model this holds by     *)
(* construction - the specification has no shared mutable state - so the   *)
(* decision comes from replaying every emitted schedule into the real code *)
(* (single thread and real threads) and validating each trace.             *)
(***************************************************************************)
EXTENDS Spake2, Toy, Json

CONSTANTS NINST,       \* 3: A1,B1 + a lone S;  4: A1,B1,S1,S2
          MAXREVIVE, EMIT

VARIABLES hist, shared
ivars == <<vars, hist, shared>>

Cast == << [cls |-> "A", w |-> 1, x |-> 2, peer |-> 2],
           [cls |-> "B", w |-> 1, x |-> 3, peer |-> 1],
           [cls |-> "S", w |-> 2, x |-> 1, peer |-> IF NINST = 4 THEN 4 ELSE 3],
           [cls |-> "S", w |-> 2, x |-> 4, peer |-> 3] >>
(* Cur(k): the newest copy of cast member k (itself or its last revived copy)  *)
RECURSIVE Root(_)
Root(i) == IF aux[i].origin = 0 THEN i ELSE Root(aux[i].origin)
Cur(k) == CHOOSE i \in Inst : Root(i) = k /\ \A j \in Inst : Root(j) = k => j <= i

IInit == /\ Init /\ hist = <<>> /\ shared = DefaultParams
SetupDone == Len(st) >= NINST
Setup == /\ ~SetupDone
         /\ LET c == Cast[Len(st) + 1] IN New(c.cls, DefaultParams, PwOfClass(c.w, 0), <<<<97>>, <<98>>>>)
         /\ UNCHANGED <<hist, shared>>
DoStartK(k) == /\ ~st[k].started
               /\ Start(k, Cast[k].x)
               /\ hist' = Append(hist, <<k, "start">>)
DoReviveK(k) == /\ st[Cur(k)].started /\ aux[Cur(k)].nfin = 0 /\ nrest < MAXREVIVE
                /\ PersistAndRevive(Cur(k))
                /\ hist' = Append(hist, <<k, "revive">>)
DoFinishK(k) == /\ st[Cur(k)].started /\ aux[Cur(k)].nfin = 0
                /\ st[Cast[k].peer].started
                /\ Finish(Cur(k), SentBy(Cast[k].peer))
                /\ hist' = Append(hist, <<k, "finish">>)
INext == \/ Setup
         \/ /\ SetupDone /\ UNCHANGED shared
            /\ \E k \in 1..NINST : DoStartK(k) \/ DoReviveK(k) \/ DoFinishK(k)
ISpec == IInit /\ [][INext]_ivars

AllDone == SetupDone /\ \A k \in 1..NINST : aux[Cur(k)].nfin = 1
Emit == (EMIT /\ AllDone) => PrintT("SCHED " \o ToJson(hist))
SharedUnchanged == [][shared' = shared]_ivars
(* the outcome of every finish() is the function of the instance's own state   *)
Isolated ==
  \A i \in Inst : aux[i].nfin = 1 =>
     aux[i].res1 = Process([st[i] EXCEPT !.finished = FALSE, !.gaveKey = FALSE], aux[i].arg1)
ExchangesAgree == AllDone => aux[Cur(1)].res1 = aux[Cur(2)].res1 /\ IsKey(aux[Cur(1)].res1)
=============================================================================
