------------------------------ MODULE MC_Sides ------------------------------
(***************************************************************************)
(* C06 design check: one instance of a class (fresh, or persisted and      *)
(* revived) is offered every side byte 0..255 in front of every element    *)
(* encoding of the group (including its own), and the empty message.       *)
(***************************************************************************)
EXTENDS Spake2, Toy

CONSTANTS CLS, WSET

MC_ParamSets == {DefaultParams}
MC_Passwords == {PwOfClass(w, 0) : w \in WSET}
MC_IdPairs == {<<<<97>>, <<98>>>>}
MC_ClassSet == {CLS}
MC_ScalarChoices(g) == AllScalars(g)
Bodies(s) == {GEnc(s.ps.grp, e) : e \in Subgroup(s.ps.grp)}
MC_Attacker(w, s) == {<<>>} \cup {<<b>> \o body : b \in 0..255, body \in Bodies(s)}

(* one lineage: new, start, optionally serialize + restore, then ONE finish()   *)
(* on the original or on the revived copy, with any deliverable message        *)
SidesNext ==
  \/ /\ Len(st) = 0
     /\ \E pw \in MC_Passwords : New(CLS, DefaultParams, pw, <<<<97>>, <<98>>>>)
  \/ /\ Len(st) = 1 /\ ~st[1].started
     /\ \E x \in AllScalars(ToyGroup) : Start(1, x)
  \/ /\ Len(st) = 1 /\ st[1].started /\ disk = {} /\ aux[1].nfin = 0 /\ MaxRestore > 0
     /\ Serialize(1)
  \/ /\ Len(st) = 1 /\ disk # {} /\ aux[1].nfin = 0
     /\ \E d \in disk : Restore(CLS, DefaultParams, d)
  \/ /\ Len(st) >= 1 /\ \A i \in Inst : aux[i].nfin = 0
     /\ \E i \in Inst : \E m \in Deliverable(i) : Finish(i, m)
SidesSpec == Init /\ [][SidesNext]_vars

PeerSide(cls) == IF cls = "A" THEN 66 ELSE IF cls = "B" THEN 65 ELSE 83
SideRefusals ==
  \A i \in Inst : aux[i].nfin >= 1 =>
    LET m == aux[i].arg1  r == aux[i].res1  cls == st[i].cls
    IN /\ (m = <<>>) => IsErr(r)
       /\ (m # <<>> /\ m[1] # PeerSide(cls)) => IsErr(r)
       /\ (m # <<>> /\ ~aux[i].early /\ cls \in {"A", "B"} /\ m[1] = SideByte(cls)) => r = Err("OffSides")
       /\ (m # <<>> /\ ~aux[i].early /\ cls = "S" /\ m[1] \in {65, 66}) => r = Err("OffSides")
       /\ (m # <<>> /\ m[1] = PeerSide(cls) /\ ~aux[i].early /\ Tail(m) = st[i].out) => IsErr(r)
       /\ (m # <<>> /\ m[1] = PeerSide(cls) /\ ~aux[i].early /\ Tail(m) = st[i].out
             /\ ~(GRefusesIdentity(st[i].ps.grp) /\ st[i].out = GEnc(st[i].ps.grp, GIdentity(st[i].ps.grp))))
            => r = Err("ReflectionThwarted")
NoWitnessOffSides == ~\E i \in Inst : aux[i].res1 = Err("OffSides")
NoWitnessReflectedRestored == ~\E i \in Inst : st[i].restored /\ aux[i].res1 = Err("ReflectionThwarted")
NoWitnessKey == ~\E i \in Inst : aux[i].nkey > 0
=============================================================================
