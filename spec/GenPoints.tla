------------------------------ MODULE GenPoints ------------------------------
(***************************************************************************)
(* Spec -> code (C12): test points of a FULL-SIZE Edwards curve, computed  *)
(* from the specification: the 8 torsion points, points of order L, 2L, 4L *)
(* and 8L, and multiples k.B for the scalars listed in the GEN_FILE.       *)
(* Printed as affine coordinates (hex).                                    *)
(***************************************************************************)
EXTENDS Group, Json, IOUtils, TLC

D == JsonDeserialize(IOEnv.GEN_FILE)
HN(h) == NFromBytes(HexToBytes(h))
G == MkCurve(HN(D.Q), HN(D.d), HN(D.L), HN(D.By))
Hex(n) == BytesToHex(NToBytes(n, 32))

RECURSIVE FirstY8L(_)
FirstY8L(y0) ==
  LET P == <<XRecover(G, y0), y0>>
  IN IF OnCurve(G, P) /\ AffMul(G, P, NMul(NLit(4), G.L)) # EdId THEN y0 ELSE FirstY8L(NAdd(y0, NLit(1)))
W  == LET y == FirstY8L(NLit(2)) IN <<XRecover(G, y), y>>       \* order 8L
T8 == AffMul(G, W, G.L)                                          \* order 8
B  == EdBase(G)
Named ==
  [k \in 0..7 |-> [name |-> "torsion", P |-> AffMul(G, T8, NLit(k))]]
Pts ==
  [k \in 1..8 |-> [name |-> "torsion point", P |-> AffMul(G, T8, NLit(k - 1))]]
  \o << [name |-> "B (order L)", P |-> B],
        [name |-> "-B", P |-> AffNeg(G, B)],
        [name |-> "2B", P |-> AffAdd(G, B, B)],
        [name |-> "W (order 8L)", P |-> W],
        [name |-> "2W (order 4L)", P |-> AffAdd(G, W, W)],
        [name |-> "4W (order 2L)", P |-> AffMul(G, W, NLit(4))],
        [name |-> "B + T8", P |-> AffAdd(G, B, T8)],
        [name |-> "B + 4*T8 (order 2L)", P |-> AffAdd(G, B, AffMul(G, T8, NLit(4)))] >>
  \o [k \in 1..Len(D.scalars) |-> [name |-> "k.B, k = " \o D.scalars[k], P |-> AffMul(G, B, NMod(HN(D.scalars[k]), G.L))]]
  \o [k \in 1..Len(D.wscalars) |-> [name |-> "k.W, k = " \o D.wscalars[k], P |-> AffMul(G, W, HN(D.wscalars[k]))]]
ASSUME PrintT("GEN " \o ToJson([k \in 1..Len(Pts) |-> [name |-> Pts[k].name, x |-> Hex(Pts[k].P[1]), y |-> Hex(Pts[k].P[2])]]))
VARIABLE dummy
Init == dummy = 0
Next == UNCHANGED dummy
=============================================================================
