----------------------------- MODULE MC_Persist -----------------------------
(***************************************************************************)
(* C08 design check: crash/restore at every point between start() and      *)
(* finish(), repeatedly (a restored instance is persisted again), for every *)
(* (password class, scalar); the revived instance must be                   *)
(* indistinguishable from the original for every inbound message class:     *)
(* every element encoding (valid, reflected, identity), undecodable         *)
(* strings, wrong side, empty.                                              *)
(***************************************************************************)
EXTENDS Spake2, Toy

CONSTANTS CLS, WSET

MC_ParamSets == {DefaultParams}
MC_Passwords == {PwOfClass(w, 0) : w \in WSET}
MC_IdPairs == {<<<<97>>, <<98, 0>>>>}
MC_ClassSet == {CLS}
MC_ScalarChoices(g) == AllScalars(g)
PeerSide(cls) == IF cls = "A" THEN 66 ELSE IF cls = "B" THEN 65 ELSE 83
Bodies(s) == {GEnc(s.ps.grp, e) : e \in Subgroup(s.ps.grp)}
MC_Attacker(w, s) ==
  {<<>>, <<PeerSide(s.cls)>>, <<PeerSide(s.cls), 0>>, <<SideByte(s.cls)>> \o s.out, <<67>> \o s.out}
  \cup {<<PeerSide(s.cls)>> \o body : body \in Bodies(s)}
  \cup {<<PeerSide(s.cls)>> \o body \o <<0>> : body \in Bodies(s)}

(* one lineage: new, start, then any number (<= MaxRestore) of serialize +     *)
(* restore steps, each persisting the newest copy OR any older one, and ONE    *)
(* finish() on any instance of the lineage with any deliverable message        *)
PersistNext ==
  \/ /\ Len(st) = 0
     /\ \E pw \in MC_Passwords : New(CLS, DefaultParams, pw, <<<<97>>, <<98, 0>>>>)
  \/ /\ Len(st) = 1 /\ ~st[1].started
     /\ \E x \in AllScalars(ToyGroup) : Start(1, x)
  \/ /\ Len(st) >= 1 /\ \A i \in Inst : aux[i].nfin = 0
     /\ \E i \in Inst : Serialize(i)
  \/ /\ Len(st) >= 1 /\ \A i \in Inst : aux[i].nfin = 0
     /\ \E d \in disk : Restore(CLS, DefaultParams, d)
  \/ /\ Len(st) >= 1 /\ \A i \in Inst : aux[i].nfin = 0
     /\ \E i \in Inst : \E m \in Deliverable(i) : Finish(i, m)
PersistSpec == Init /\ [][PersistNext]_vars

(* serialize() is pure and repeatable: one blob per instance, and the same    *)
(* data for an instance and its revived copies                                *)
SerializeStable ==
  \A d1, d2 \in disk : (Lineage(d1.by) = Lineage(d2.by)) => d1.blob = d2.blob
SerializePure == [][(\E i \in Inst : Serialize(i)) => (st' = st /\ wire' = wire)]_vars
(* every finish() outcome of a revived instance is what the original would    *)
(* have produced for the same message                                         *)
SameOutcomes ==
  \A j \in Inst : (st[j].restored /\ aux[j].nfin >= 1) =>
     aux[j].res1 \in FinishOutcomes([st[aux[j].origin] EXCEPT !.finished = FALSE, !.gaveKey = FALSE], aux[j].arg1)
NoWitnessRestoredKey == ~\E j \in Inst : st[j].restored /\ aux[j].nkey > 0 /\ aux[aux[j].origin].origin # 0
=============================================================================
