------------------------------ MODULE Hashing ------------------------------
(***************************************************************************)
(* TOY instance of the hash layer: SHA-256 is modelled as an injective,    *)
(* self-delimiting token (<<-1, length>> followed by the pre-image), so a  *)
(* transcript stays a flat sequence of integers exactly as the code builds *)
(* it with b"".join, the raw variable-length fields X, Y, K keep their     *)
(* concatenation ambiguity, and equality of keys is equality of            *)
(* transcripts.  The two HKDF expansions are modelled as random oracles    *)
(* chosen for convenience: a toy password or seed IS its expansion (its    *)
(* first byte is the number it expands to).                                *)
(***************************************************************************)
EXTENDS Num, Bytes

HashIsSymbolic == TRUE
Hash(b) == <<-1, Len(b)>> \o b
(* the empty password / seed (used by the restore fingerprint) expand to fixed *)
(* non-trivial numbers so that the fingerprint depends on the group            *)
ExpandPw(pw, n)     == NToBytes(NLit(IF pw = <<>> THEN 5 ELSE pw[1]), n)
ExpandSeed(seed, n) == NToBytes(NLit(IF seed = <<>> THEN 7 ELSE seed[1]), n)
=============================================================================
