-------------------------------- MODULE Num --------------------------------
(***************************************************************************)
(* The number signature of the specification, TOY instance: numbers are    *)
(* TLC integers (products must stay below 2^31, i.e. moduli <= 46337).     *)
(* Pure TLA+, no overrides.  See spec/big/Num.tla.                         *)
(***************************************************************************)
EXTENDS Integers, Sequences, TLC

NumIsBig == FALSE
NLit(k)    == k
NAdd(a, b) == a + b
NSub(a, b) == a - b
NMul(a, b) == a * b
NDiv(a, b) == a \div b
NMod(a, b) == a % b
RECURSIVE NExpMod(_, _, _)
NExpMod(a, e, m) == IF e = 0 THEN 1 % m
                    ELSE LET h  == NExpMod(a, e \div 2, m)
                             hh == (h * h) % m
                         IN IF e % 2 = 1 THEN (hh * (a % m)) % m ELSE hh
NLt(a, b)  == a < b
NLe(a, b)  == a <= b
NIsZero(a) == a = 0
RECURSIVE NBitLen(_)
NBitLen(a) == IF a = 0 THEN 0 ELSE 1 + NBitLen(a \div 2)
NOdd(a)    == a % 2 = 1
RECURSIVE NPow2(_)
NPow2(k)   == IF k = 0 THEN 1 ELSE 2 * NPow2(k - 1)
NShr(a, k) == a \div NPow2(k)
NLowBits(a, k) == IF k >= 31 THEN a ELSE a % NPow2(k)
NToInt(a)  == a
RECURSIVE NFromBytes(_)
NFromBytes(bs) == IF bs = <<>> THEN 0
                  ELSE 256 * NFromBytes(SubSeq(bs, 1, Len(bs) - 1)) + bs[Len(bs)]
RECURSIVE NToBytes(_, _)
NToBytes(a, len) == IF len = 0 THEN (IF a = 0 THEN <<>> ELSE Assert(FALSE, "NToBytes: does not fit"))
                    ELSE Append(NToBytes(a \div 256, len - 1), a % 256)
(* decode big-endian bytes if the value is below bound (never overflows)      *)
RECURSIVE NStrip(_)
NStrip(bs) == IF bs # <<>> /\ bs[1] = 0 THEN NStrip(Tail(bs)) ELSE bs
NFromBytesLt(bs, bound) ==
  LET s == NStrip(bs)
  IN IF Len(s) > 3 THEN [ok |-> FALSE, v |-> 0]
     ELSE LET v == NFromBytes(s) IN [ok |-> v < bound, v |-> IF v < bound THEN v ELSE 0]
=============================================================================
