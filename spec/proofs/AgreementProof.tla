--------------------------- MODULE AgreementProof ---------------------------
(***************************************************************************)
(* The algebra behind C01, for EVERY group (TLAPS proof; TLC can only      *)
(* enumerate toy groups).  Over any abelian group with an integer scalar   *)
(* multiplication satisfying the laws that MC_Axioms checks exhaustively   *)
(* for the specification's group operations on toy groups (and that C13    *)
(* validates for the code's element API), the two ends of SPAKE2 compute   *)
(* the same element K:                                                     *)
(*     x.(Y* - w.N) = y.(X* - w.M)   with  X* = x.G + w.M,  Y* = y.G + w.N *)
(* and likewise for the symmetric variant (M = N = S).                     *)
(***************************************************************************)
EXTENDS Integers, TLAPS

CONSTANTS E, Zero, Add(_, _), Neg(_), Mul(_, _)

AXIOM GroupAx ==
  /\ Zero \in E
  /\ \A a, b \in E : Add(a, b) \in E
  /\ \A a \in E : Neg(a) \in E
  /\ \A a, b, c \in E : Add(Add(a, b), c) = Add(a, Add(b, c))
  /\ \A a, b \in E : Add(a, b) = Add(b, a)
  /\ \A a \in E : Add(a, Zero) = a
  /\ \A a \in E : Add(a, Neg(a)) = Zero

AXIOM MulAx ==
  /\ \A a \in E, n \in Int : Mul(a, n) \in E
  /\ \A a \in E, m, n \in Int : Mul(Mul(a, m), n) = Mul(a, m * n)
  /\ \A a \in E, n \in Int : Mul(a, -n) = Neg(Mul(a, n))
  /\ \A a \in E : Mul(a, 0) = Zero

LEMMA Unblind ==
  ASSUME NEW P \in E, NEW B \in E, NEW w \in Int
  PROVE  Add(Add(P, Mul(B, w)), Mul(B, -w)) = P
<1>1. Mul(B, w) \in E  BY MulAx
<1>2. Mul(B, -w) = Neg(Mul(B, w))  BY MulAx
<1>3. Add(Add(P, Mul(B, w)), Neg(Mul(B, w))) = Add(P, Add(Mul(B, w), Neg(Mul(B, w))))  BY <1>1, GroupAx
<1>4. Add(Mul(B, w), Neg(Mul(B, w))) = Zero  BY <1>1, GroupAx
<1>5. Add(P, Zero) = P  BY GroupAx
<1> QED  BY <1>2, <1>3, <1>4, <1>5

THEOREM Agreement ==
  ASSUME NEW G \in E, NEW M \in E, NEW N \in E, NEW x \in Int, NEW y \in Int, NEW w \in Int
  PROVE  LET Xs == Add(Mul(G, x), Mul(M, w))
             Ys == Add(Mul(G, y), Mul(N, w))
         IN Mul(Add(Ys, Mul(N, -w)), x) = Mul(Add(Xs, Mul(M, -w)), y)
<1>1. Mul(G, x) \in E /\ Mul(G, y) \in E  BY MulAx
<1>2. Add(Add(Mul(G, y), Mul(N, w)), Mul(N, -w)) = Mul(G, y)  BY <1>1, Unblind
<1>3. Add(Add(Mul(G, x), Mul(M, w)), Mul(M, -w)) = Mul(G, x)  BY <1>1, Unblind
<1>4. Mul(Mul(G, y), x) = Mul(G, y * x)  BY MulAx
<1>5. Mul(Mul(G, x), y) = Mul(G, x * y)  BY MulAx
<1>6. y * x = x * y  OBVIOUS
<1> QED  BY <1>2, <1>3, <1>4, <1>5, <1>6

(* Finding F8 is inherent to the protocol: with password scalar 0 the blinding *)
(* terms vanish, so two ends whose parameter sets differ in M and N (any        *)
(* M1, N1 versus M2, N2) still compute the same K.                              *)
THEOREM F8Inherent ==
  ASSUME NEW G \in E, NEW M1 \in E, NEW N1 \in E, NEW M2 \in E, NEW N2 \in E, NEW x \in Int, NEW y \in Int
  PROVE  LET Xs == Add(Mul(G, x), Mul(M1, 0))       \* sent by A under (M1, N1)
             Ys == Add(Mul(G, y), Mul(N2, 0))       \* sent by B under (M2, N2)
         IN Mul(Add(Ys, Mul(N1, -0)), x) = Mul(Add(Xs, Mul(M2, -0)), y)
<1>1. Mul(G, x) \in E /\ Mul(G, y) \in E  BY MulAx
<1>2. Mul(M1, 0) = Zero /\ Mul(N2, 0) = Zero /\ Mul(N1, -0) = Zero /\ Mul(M2, -0) = Zero  BY MulAx
<1>3. Add(Add(Mul(G, y), Zero), Zero) = Mul(G, y)  BY <1>1, GroupAx
<1>4. Add(Add(Mul(G, x), Zero), Zero) = Mul(G, x)  BY <1>1, GroupAx
<1>5. Mul(Mul(G, y), x) = Mul(G, y * x) /\ Mul(Mul(G, x), y) = Mul(G, x * y)  BY MulAx
<1>6. y * x = x * y  OBVIOUS
<1> QED  BY <1>2, <1>3, <1>4, <1>5, <1>6
=============================================================================
