------------------------------ MODULE MC_Derive ------------------------------
(***************************************************************************)
(* C14 design check of the maps AFTER the HKDF expansion, which on a toy   *)
(* group are total functions of a small number: every h in [0,p) for       *)
(* IntegerGroup.arbitrary_element (h^((p-1)/q) mod p), every y in [0,Q)    *)
(* for the Edwards try-and-increment, every value for password_to_scalar.  *)
(* For integer groups the published construction is NOT always a           *)
(* non-identity member: h = 0 gives 0 and h in the kernel of the cofactor  *)
(* map gives the identity (finding F7); ArbSoundButF7 excuses exactly      *)
(* those h, ArbSound does not and TLC must refute it.                      *)
(***************************************************************************)
EXTENDS Toy, TLC

G == ToyGroup
VARIABLES h, sub
Init == sub = Subgroup(G) /\ h \in 0..(NToInt(IF IsEd(G) THEN G.Q ELSE G.p) - 1)
Next == UNCHANGED <<h, sub>>
Spec == Init /\ [][Next]_<<h, sub>>

Elem == IF IsEd(G) THEN EdArbFromY(G, h) ELSE IG_ArbFromH(G, h)
Degenerate == ~IsEd(G) /\ (h = 0 \/ IG_ArbFromH(G, h) = 1)
ArbSound      == Elem \in sub /\ Elem # GIdentity(G)
ArbSoundButF7 == Degenerate \/ ArbSound
PwScalarInRange == \A w \in 0..300 : LET s == GPwScalar(G, <<w, 0>>) IN s >= 0 /\ s < NToInt(GOrder(G)) /\ s = w % NToInt(GOrder(G))
ASSUME IsEd(G) \/ PrintT(<<"degenerate h", Cardinality({x \in 0..(G.p - 1) : x = 0 \/ IG_ArbFromH(G, x) = 1}), "of", G.p>>)
=============================================================================
