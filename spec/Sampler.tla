------------------------------ MODULE Sampler ------------------------------
(***************************************************************************)
(* util.unbiased_randrange as a function of the byte strings the entropy   *)
(* function served, and the Ed25519 64-byte reduction.  An entropy log is  *)
(* a sequence of records [req |-> n, got |-> bytes], one per call of       *)
(* entropy_f.                                                              *)
(***************************************************************************)
EXTENDS Num, Bytes, Codec

(* masked big-endian candidate of one draw                                   *)
(* mp1 = top byte mask + 1 (a power of two)                                   *)
CandidateM(draw, mp1) == NFromBytes([draw EXCEPT ![1] = draw[1] % mp1])
Candidate(draw, maxval) == CandidateM(draw, TopMask(maxval) + 1)

SamplerOK(v)   == [ok |-> TRUE, v |-> v, why |-> "ok"]
SamplerBad(w)  == [ok |-> FALSE, v |-> NLit(0), why |-> w]

(* unbiased_randrange(start, stop, f) given the log of what f served: every  *)
(* request asks for size_bytes(stop-start) bytes, every draw but the last is *)
(* rejected (candidate >= width), the last one is accepted                   *)
(* The entropy consumed is what matters, not how it is split into requests:   *)
(* the bytes served are concatenated and cut into draws of size_bytes(width)  *)
(* bytes.  (The code asks for one draw per request.)                          *)
RECURSIVE ConcatGot(_)
ConcatGot(log) == IF log = <<>> THEN <<>> ELSE log[1].got \o ConcatGot(Tail(log))
Randrange(start, stop, log) ==
  LET maxval == NSub(stop, start)
      nb     == SizeBytes(maxval)
      bytes  == ConcatGot(log)
      n      == Len(bytes) \div nb
      mp1    == TopMask(maxval) + 1
      cand(i) == CandidateM(SubSeq(bytes, (i - 1) * nb + 1, i * nb), mp1)
  IN IF Len(log) = 0 \/ bytes = <<>> THEN SamplerBad("no entropy drawn")
     ELSE IF \E i \in 1..Len(log) : Len(log[i].got) # log[i].req
          THEN SamplerBad("entropy function returned a wrong number of bytes")
     ELSE IF Len(bytes) % nb # 0
          THEN SamplerBad("entropy consumed is not a whole number of draws of size_bytes(width) bytes")
     ELSE IF \E i \in 1..(n - 1) : NLt(cand(i), maxval)
          THEN SamplerBad("drew again although an earlier draw was in range")
     ELSE IF ~NLt(cand(n), maxval)
          THEN SamplerBad("returned although the last draw was out of range")
     ELSE SamplerOK(NAdd(start, cand(n)))

(* ed25519_basic.random_scalar: 64 fresh bytes (512 bits), big-endian, mod L.   *)
(* The code asks for them in one request; the property only demands 512 fresh   *)
(* bits, so any split into requests is allowed as long as exactly 64 bytes are  *)
(* consumed, in order.                                                          *)
EdRandomScalar(L, log) ==
  IF Len(log) = 0 THEN SamplerBad("Ed25519 draws 64 bytes")
  ELSE IF \E i \in 1..Len(log) : Len(log[i].got) # log[i].req THEN SamplerBad("entropy function returned a wrong number of bytes")
  ELSE IF Len(ConcatGot(log)) # 64 THEN SamplerBad("Ed25519 draws 64 bytes")
  ELSE SamplerOK(NMod(NFromBytes(ConcatGot(log)), L))
=============================================================================
