------------------------------- MODULE Primes -------------------------------
(***************************************************************************)
(* Miller-Rabin on N-values with the first 24 primes as fixed bases (error  *)
(* below 4^-24 for a composite; deterministic below 3.3e24), and the Hasse *)
(* point-count certificate for a twisted Edwards curve (C18).              *)
(***************************************************************************)
EXTENDS Group

MRBases == <<2, 3, 5, 7, 11, 13, 17, 19, 23, 29, 31, 37, 41, 43, 47, 53, 59, 61, 67, 71, 73, 79, 83, 89>>
RECURSIVE TwoPart(_, _)
(* n = d * 2^s with d odd: returns <<d, s>>                                   *)
TwoPart(n, s) == IF NOdd(n) THEN <<n, s>> ELSE TwoPart(NShr(n, 1), s + 1)
RECURSIVE MRSquarings(_, _, _)
MRSquarings(x, n, k) ==                 \* some x^(2^i), 1 <= i <= k, equals n-1
  IF k = 0 THEN FALSE
  ELSE LET y == NMod(NMul(x, x), n) IN y = NSub(n, NLit(1)) \/ MRSquarings(y, n, k - 1)
MRPass(n, a) ==
  LET ds == TwoPart(NSub(n, NLit(1)), 0)
      x  == NExpMod(NLit(a), ds[1], n)
  IN x = NLit(1) \/ x = NSub(n, NLit(1)) \/ MRSquarings(x, n, ds[2] - 1)
ProbablyPrime(n) ==
  /\ NLt(NLit(1), n)
  /\ \A i \in 1..Len(MRBases) :
       LET a == MRBases[i]
       IN IF n = NLit(a) THEN TRUE
          ELSE IF NIsZero(NMod(n, NLit(a))) THEN FALSE
          ELSE MRPass(n, a)

IntParamsSound(g) ==
  /\ ProbablyPrime(g.p) /\ ProbablyPrime(g.q)
  /\ NIsZero(NMod(NSub(g.p, NLit(1)), g.q))
  /\ g.g # NLit(1) /\ NLt(NLit(1), g.g) /\ NLt(g.g, g.p)
  /\ NExpMod(g.g, g.q, g.p) = NLit(1)                     \* with q prime and g # 1: order exactly q

(* Hasse: #E is within 2*sqrt(Q) of Q+1.  W has order exactly 8L, so 8L     *)
(* divides #E; 8L is the only multiple of 8L in the Hasse interval.          *)
HasseCertificate(c, W) ==
  LET n8L == NMul(NLit(8), c.L)
      q1  == NAdd(c.Q, NLit(1))
      diff == IF NLt(n8L, q1) THEN NSub(q1, n8L) ELSE NSub(n8L, q1)
  IN /\ OnCurve(c, W)
     /\ AffMul(c, W, n8L) = EdId
     /\ AffMul(c, W, NMul(NLit(4), c.L)) # EdId
     /\ AffMul(c, W, NLit(8)) # EdId
     /\ NLe(NMul(diff, diff), NMul(NLit(4), c.Q))                   \* |8L - (Q+1)| <= 2 sqrt(Q)
     /\ NLt(NMul(NLit(16), c.Q), NMul(n8L, n8L))                    \* 8L > 4 sqrt(Q): no other multiple fits
RECURSIVE FirstOrder8L(_, _)
FirstOrder8L(c, y0) ==
  LET P == <<XRecover(c, y0), y0>>
  IN IF OnCurve(c, P) /\ AffMul(c, P, NMul(NLit(4), c.L)) # EdId THEN P
     ELSE FirstOrder8L(c, NAdd(y0, NLit(1)))
EdParamsSound(c) ==
  /\ ProbablyPrime(c.Q) /\ ProbablyPrime(c.L)
  /\ NMod(c.Q, NLit(8)) = NLit(5)
  /\ NExpMod(c.d, NDiv(NSub(c.Q, NLit(1)), NLit(2)), c.Q) = NSub(c.Q, NLit(1))     \* d is a non-square
  /\ FSq(c, c.I) = NSub(c.Q, NLit(1))                                               \* -1 is a square
  /\ OnCurve(c, EdBase(c)) /\ ~NOdd(c.Bx)
  /\ EdBase(c) # EdId /\ AffMul(c, EdBase(c), c.L) = EdId
  /\ HasseCertificate(c, FirstOrder8L(c, NLit(2)))
ElementsSound(ps) ==
  LET g == ps.grp  id == GIdentity(g)
  IN /\ ps.M # ps.N /\ ps.M # ps.S /\ ps.N # ps.S
     /\ \A e \in {ps.M, ps.N, ps.S} : e # id /\ e # GBase(g) /\ GIsMember(g, e)
=============================================================================
