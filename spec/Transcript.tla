----------------------------- MODULE Transcript -----------------------------
(* spake2.py: finalize_SPAKE2, finalize_SPAKE2_symmetric (C17, C03)          *)
EXTENDS Bytes, Hashing

Finalize(idA, idB, X, Y, K, pw) ==
  Hash(Hash(pw) \o Hash(idA) \o Hash(idB) \o X \o Y \o K)

FinalizeSym(idS, m1, m2, K, pw) ==
  LET first  == IF BytesLe(m1, m2) THEN m1 ELSE m2
      second == IF BytesLe(m1, m2) THEN m2 ELSE m1
  IN Hash(Hash(pw) \o Hash(idS) \o first \o second \o K)
=============================================================================
