--------------------------- MODULE Lifecycle_apa ---------------------------
(* Apalache wrapper of Lifecycle.tla: the constant as a definition, typed     *)
(* variables.  Run by harness/checks/c07.py:                                   *)
(*   apalache-mc check --init=LInit   --inv=IndInv --length=0  (base case)     *)
(*   apalache-mc check --init=IndInit --inv=IndInv --length=1  (induction)     *)
(*   apalache-mc check --init=IndInit --inv=Safety --length=0  (IndInv=>Safety)*)
EXTENDS Integers, FiniteSets
VARIABLES
  \* @type: Int -> Bool;
  alive,
  \* @type: Int -> Bool;
  started,
  \* @type: Int -> Bool;
  finished,
  \* @type: Int -> Bool;
  gaveMsg,
  \* @type: Int -> Bool;
  gaveKey,
  \* @type: Int -> Bool;
  restored,
  \* @type: Int -> Int;
  nmsg,
  \* @type: Int -> Int;
  nkey,
  \* @type: Int -> Int;
  entropy,
  \* @type: Int -> Int;
  origin,
  \* @type: Set(Int);
  saved,
  \* @type: Int -> Int;
  scal,
  \* @type: Int -> Bool;
  limbo

INSTANCE Lifecycle WITH NIds <- 6, NScal <- 3

IndInit == IndInv

(* vacuity guard: with a start() that may return a second message the        *)
(* induction step must FAIL (the check expects Apalache's counterexample)    *)
BadStartAgain(i) ==
  /\ alive[i] /\ started[i] /\ ~restored[i]
  /\ nmsg' = [nmsg EXCEPT ![i] = @ + 1]
  /\ entropy' = [entropy EXCEPT ![i] = @ + 1]
  /\ UNCHANGED <<alive, started, finished, gaveMsg, gaveKey, restored, nkey, origin, saved, scal, limbo>>
BadNext == LNext \/ \E i \in Ids : BadStartAgain(i)

(* second guard: a start() that replaces the scalar of a restored instance breaks ScalarNeverChanges *)
BadRescal(i) == /\ alive[i] /\ restored[i] /\ scal' = [scal EXCEPT ![i] = 1]
                /\ UNCHANGED <<alive, started, finished, gaveMsg, gaveKey, restored, nmsg, nkey, entropy, origin, saved, limbo>>
BadNext2 == LNext \/ \E i \in Ids : BadRescal(i)

(* third guard: a failed start() that nevertheless leaves a scalar behind breaks the induction (LimboHasNothing) *)
BadLimbo(i) == /\ alive[i] /\ ~started[i] /\ limbo' = [limbo EXCEPT ![i] = TRUE] /\ scal' = [scal EXCEPT ![i] = 1]
               /\ UNCHANGED <<alive, started, finished, gaveMsg, gaveKey, restored, nmsg, nkey, entropy, origin, saved>>
BadNext3 == LNext \/ \E i \in Ids : BadLimbo(i)
=============================================================================
