------------------------------ MODULE IntGroup ------------------------------
(***************************************************************************)
(* groups.py IntegerGroup as data: the order-q subgroup of Z_p^*, written  *)
(* additively as the library does.  grp = [kind |-> "int", p, q, g].       *)
(* Elements are numbers in [1,p).                                          *)
(***************************************************************************)
EXTENDS Num, Bytes, Codec, Hashing

IG_ESize(grp) == SizeBytes(grp.p)
IG_SSize(grp) == SizeBytes(grp.q)
IG_Identity(grp) == NLit(1)
IG_Base(grp)     == grp.g
IG_Add(grp, a, b) == NMod(NMul(a, b), grp.p)
(* n is a non-negative number; the library reduces the scalar mod q          *)
IG_Mul(grp, a, n) == NExpMod(a, NMod(n, grp.q), grp.p)
IG_IsMember(grp, e) == NExpMod(e, grp.q, grp.p) = NLit(1)
IG_Enc(grp, e) == NToBytes(e, IG_ESize(grp))

Reject == [ok |-> FALSE, e |-> NLit(0)]
Accept(e) == [ok |-> TRUE, e |-> e]

(* strict decoding (C05): exact length, 0 < i < p, member of the subgroup    *)
IG_Dec(grp, b) ==
  IF Len(b) # IG_ESize(grp) THEN Reject
  ELSE LET i == NFromBytes(b)
       IN IF NIsZero(i) \/ NLe(grp.p, i) THEN Reject
          ELSE IF ~IG_IsMember(grp, i) THEN Reject
          ELSE Accept(i)

(* arbitrary_element: HKDF output mod p raised to the cofactor (p-1)/q       *)
IG_Cofactor(grp) == NDiv(NSub(grp.p, NLit(1)), grp.q)
IG_ArbFromH(grp, h) == NExpMod(h, IG_Cofactor(grp), grp.p)
IG_ArbH(grp, seed) == NMod(NFromBytes(ExpandSeed(seed, IG_ESize(grp))), grp.p)
IG_ArbElem(grp, seed) == IG_ArbFromH(grp, IG_ArbH(grp, seed))

(* scalar codec: big-endian, size_bytes(q) bytes                             *)
IG_ScalarEnc(grp, n) == NumberToBytes(n, grp.q)          \* [ok, v]
IG_ScalarDec(grp, b) ==
  IF Len(b) # IG_SSize(grp) THEN Reject
  ELSE LET i == NFromBytes(b) IN IF NLt(i, grp.q) THEN Accept(i) ELSE Reject

(* the constructor's acceptance condition (C18)                              *)
IG_ConstructorAccepts(p, q, g) == NExpMod(g, q, p) = NLit(1)
=============================================================================
