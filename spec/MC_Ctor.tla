------------------------------- MODULE MC_Ctor -------------------------------
(***************************************************************************)
(* C18 design check of the IntegerGroup constructor's acceptance test      *)
(* (g^q = 1 mod p): for every listed (p, q) with q prime dividing p-1 and  *)
(* EVERY g in [1,p) it accepts exactly the generators whose order divides  *)
(* q (order 1 or q).  And the toy group of the cfg is a sound group.       *)
(***************************************************************************)
EXTENDS Toy, Primes, TLC

CONSTANT PQS           \* set of numbers 100000*p + q (cfg files cannot hold tuples)
VARIABLES p, q
Init == \E pq \in PQS : p = pq \div 100000 /\ q = pq % 100000
Next == UNCHANGED <<p, q>>
Spec == Init /\ [][Next]_<<p, q>>
OrderOf(g) == CHOOSE k \in 1..(p - 1) : NExpMod(g, k, p) = 1 /\ \A j \in 1..(k - 1) : NExpMod(g, j, p) # 1
AcceptsExactlyOrderDividingQ ==
  \A g \in 1..(p - 1) : IG_ConstructorAccepts(p, q, g) <=> (q % OrderOf(g) = 0)
ASSUME IsEd(ToyGroup) \/ IntParamsSound(ToyGroup)
ASSUME \A n \in 2..400 : ProbablyPrime(n) <=> (\A dd \in 2..(n - 1) : n % dd # 0)
=============================================================================
