--------------------------- MODULE MC_Transcript ---------------------------
(***************************************************************************)
(* C17 design check with SHA-256 modelled as an injective token: over all  *)
(* argument tuples built from short strings over a two-letter alphabet     *)
(* (empty strings, prefixes/suffixes of one another, the ('ab','b') vs     *)
(* ('a','bb') pair included) and fixed-width X, Y, K:                      *)
(*  - two tuples with equal keys are equal (every field is bound),         *)
(*  - the symmetric form ignores the order of the two messages and binds   *)
(*    everything else,                                                     *)
(*  - WITHOUT the fixed width the raw concatenation X || Y || K is         *)
(*    ambiguous (a witness is required), which is why decoding must be     *)
(*    strict (C05).                                                        *)
(* One initial state per tuple, the invariants quantify over the second.   *)
(***************************************************************************)
EXTENDS Transcript, FiniteSets, TLC

CONSTANTS WIDTH, PWMAX      \* PWMAX: longest password tried (identities: up to 2)
Alpha == {97, 98}
Str(n) == IF n = 0 THEN {<<>>} ELSE IF n = 1 THEN {<<a>> : a \in Alpha} ELSE {<<a, b>> : a \in Alpha, b \in Alpha}
Short == Str(0) \cup Str(1) \cup Str(2)
ShortPw == UNION {Str(k) : k \in 0..PWMAX}
Fixed == Str(WIDTH)

VARIABLES pw, idA, idB, X, Y, K
v == <<pw, idA, idB, X, Y, K>>
(* two-stage fan-out: stage 1 picks (pw, idA), stage 2 the rest, so that all   *)
(* TLC workers share the tuples                                               *)
None == <<0 - 1>>
Init == pw \in ShortPw /\ idA \in Short /\ idB = None /\ X = None /\ Y = None /\ K = None
Next == /\ idB = None
        /\ idB' \in Short /\ X' \in Fixed /\ Y' \in Fixed /\ K' \in Fixed
        /\ UNCHANGED <<pw, idA>>
Spec == Init /\ [][Next]_v
Ready == idB # None

BindsEveryField == Ready =>
  \A pw2 \in ShortPw, a2 \in Short, b2 \in Short, X2 \in Fixed, Y2 \in Fixed, K2 \in Fixed :
    Finalize(idA, idB, X, Y, K, pw) = Finalize(a2, b2, X2, Y2, K2, pw2)
      => <<pw2, a2, b2, X2, Y2, K2>> = v
SymmetricOrderFree == Ready => FinalizeSym(idA, X, Y, K, pw) = FinalizeSym(idA, Y, X, K, pw)
SymmetricBinds == Ready =>
  \A pw2 \in ShortPw, a2 \in Short, X2 \in Fixed, Y2 \in Fixed, K2 \in Fixed :
    FinalizeSym(idA, X, Y, K, pw) = FinalizeSym(a2, X2, Y2, K2, pw2)
      => (pw2 = pw /\ a2 = idA /\ K2 = K /\ {X2, Y2} = {X, Y})
(* order-freeness and "min first" for messages of ANY length (prefixes, empty) *)
SymmetricAnyLength == Ready =>
  \A m1 \in Short, m2 \in Short :
    /\ FinalizeSym(idA, m1, m2, K, pw) = FinalizeSym(idA, m2, m1, K, pw)
    /\ FinalizeSym(idA, m1, m2, K, pw) = Hash(Hash(pw) \o Hash(idA) \o (IF BytesLe(m1, m2) THEN m1 \o m2 ELSE m2 \o m1) \o K)
    /\ (BytesLe(m1, m2) /\ BytesLe(m2, m1)) => m1 = m2                 \* the order is total and antisymmetric
    /\ BytesLe(m1, m2) \/ BytesLe(m2, m1)
(* the definition itself                                                      *)
Layout == Ready =>
          /\ Finalize(idA, idB, X, Y, K, pw) = Hash(Hash(pw) \o Hash(idA) \o Hash(idB) \o X \o Y \o K)
          /\ FinalizeSym(idA, X, Y, K, pw) = Hash(Hash(pw) \o Hash(idA) \o (IF BytesLe(X, Y) THEN X \o Y ELSE Y \o X) \o K)
(* variable-width raw fields are ambiguous                                    *)
ASSUME Finalize(<<>>, <<>>, <<97>>, <<98, 97>>, <<98>>, <<>>) = Finalize(<<>>, <<>>, <<97, 98>>, <<97>>, <<98>>, <<>>)
(* Python's ordering of bytes                                                 *)
ASSUME BytesLe(<<>>, <<0>>) /\ BytesLe(<<97>>, <<97, 0>>) /\ ~BytesLe(<<97, 0>>, <<97>>) /\ BytesLe(<<97, 255>>, <<98>>)
       /\ BytesLe(<<5>>, <<5>>) /\ ~BytesLe(<<200>>, <<100, 255>>)
=============================================================================
