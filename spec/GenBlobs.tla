------------------------------ MODULE GenBlobs ------------------------------
(***************************************************************************)
(* Spec -> code (C10): the specification as an independent ENCODER of the  *)
(* released persisted-state format.  For each session descriptor of the    *)
(* GEN_FILE (class, parameter set, password, identities, scalar) it prints *)
(* the state dictionary (hex fields) the released format prescribes.  The  *)
(* driver renders it as JSON text (any key order, any whitespace) and      *)
(* hands it to from_serialized().                                          *)
(***************************************************************************)
EXTENDS Spake2Core, Json, IOUtils, TLC

D == JsonDeserialize(IOEnv.GEN_FILE)
HN(h) == NFromBytes(HexToBytes(h))
GroupOf(r) == IF r.kind = "int" THEN [kind |-> "int", p |-> HN(r.p), q |-> HN(r.q), g |-> HN(r.g)]
              ELSE MkCurve(HN(r.Q), HN(r.d), HN(r.L), HN(r.By))
Groups == [n \in DOMAIN D.groups |-> GroupOf(D.groups[n])]
Params == [n \in DOMAIN D.params |->
             LET r == D.params[n]  g == Groups[r.grp]
             IN [grp |-> g, M |-> GArbElem(g, HexToBytes(r.M)), N |-> GArbElem(g, HexToBytes(r.N)), S |-> GArbElem(g, HexToBytes(r.S))]]
BlobFor(s) ==
  LET ps == Params[s.ps]
      i0 == NewInst(s.cls, ps, HexToBytes(s.pw), HexToBytes(s.idA), HexToBytes(s.idB))
      x  == HN(s.x)
      i1 == StartNext(i0, x, StartOutcome(i0, x))
      b  == BlobOf(i1)
  IN [k \in DOMAIN b |-> IF k = "side" THEN s.cls ELSE BytesToHex(b[k])]
ASSUME PrintT("GEN " \o ToJson([k \in 1..Len(D.sessions) |-> BlobFor(D.sessions[k])]))
VARIABLE dummy
Init == dummy = 0
Next == UNCHANGED dummy
=============================================================================
