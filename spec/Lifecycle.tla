------------------------------ MODULE Lifecycle ------------------------------
(***************************************************************************)
(* The life cycle of session instances, abstracted from every value: which *)
(* calls were made and what kind of thing they returned.  This is the      *)
(* skeleton of Spake2.tla (flags and counters only), small enough for an   *)
(* UNBOUNDED argument: `IndInv` is an inductive invariant (discharged by   *)
(* Apalache: Init => IndInv, IndInv /\ Next => IndInv'), so the counting   *)
(* properties of C07 and C11 hold after call histories of ANY length, not  *)
(* only up to the depth TLC enumerates in MC_History.                      *)
(*                                                                         *)
(* The chain of evidence:                                                  *)
(*   code  --trace validation-->  Spake2Core / Spake2  (every recorded     *)
(*         call has the flags and outcome class the rules give)            *)
(*   Spake2 --refinement, checked by TLC--> Lifecycle  (MC_History and     *)
(*         MC_Agree check the action property LC!StepOK under the mapping  *)
(*         at the end of Spake2-based models: every step of the detailed   *)
(*         machine is a step of this one)                                  *)
(*   Lifecycle --induction, Apalache--> the properties, unboundedly.       *)
(***************************************************************************)
EXTENDS Integers, FiniteSets

CONSTANTS
  \* @type: Int;
  NIds,           \* instance identifiers are 1..NIds (fresh and restored instances alike)
  \* @type: Int;
  NScal           \* secret scalars are tokens 1..NScal (0: none yet)

VARIABLES
  \* @type: Int -> Bool;
  alive,          \* the instance exists (constructor or from_serialized returned it)
  \* @type: Int -> Bool;
  started,        \* start() returned a message, or the instance was restored
  \* @type: Int -> Bool;
  finished,       \* finish() has been called (whatever it did)
  \* @type: Int -> Bool;
  gaveMsg,        \* start() returned a message on this very instance
  \* @type: Int -> Bool;
  gaveKey,        \* finish() returned a key
  \* @type: Int -> Bool;
  restored,       \* produced by from_serialized()
  \* @type: Int -> Int;
  nmsg,           \* number of messages start() has returned
  \* @type: Int -> Int;
  nkey,           \* number of keys finish() has returned
  \* @type: Int -> Int;
  entropy,        \* number of calls that drew from the entropy function
  \* @type: Int -> Int;
  origin,         \* 0, or the instance whose saved state this one was restored from
  \* @type: Set(Int);
  saved,          \* instances whose state is on disk
  \* @type: Int -> Int;
  scal,           \* 0, or (a token for) the secret scalar: what serialize() reports as xy_scalar
  \* @type: Int -> Bool;
  limbo           \* a start() failed because the entropy function raised (Spake2!StartFails)

lvars == <<alive, started, finished, gaveMsg, gaveKey, restored, nmsg, nkey, entropy, origin, saved, scal, limbo>>

Ids == 1..NIds

LInit ==
  /\ alive = [i \in Ids |-> FALSE] /\ started = [i \in Ids |-> FALSE] /\ finished = [i \in Ids |-> FALSE]
  /\ gaveMsg = [i \in Ids |-> FALSE] /\ gaveKey = [i \in Ids |-> FALSE] /\ restored = [i \in Ids |-> FALSE]
  /\ nmsg = [i \in Ids |-> 0] /\ nkey = [i \in Ids |-> 0] /\ entropy = [i \in Ids |-> 0]
  /\ origin = [i \in Ids |-> 0] /\ saved = {} /\ scal = [i \in Ids |-> 0]
  /\ limbo = [i \in Ids |-> FALSE]

(* a constructor: draws no entropy                                           *)
LNew(i) ==
  /\ ~alive[i]
  /\ alive' = [alive EXCEPT ![i] = TRUE]
  /\ UNCHANGED <<started, finished, gaveMsg, gaveKey, restored, nmsg, nkey, entropy, origin, saved, scal, limbo>>

(* the one start() that returns a message; it alone draws entropy            *)
LStart(i) ==
  /\ alive[i] /\ ~started[i]
  /\ scal' \in [Ids -> 0..NScal]          \* any scalar: written without a quantifier over 1..NScal so that TLC, which
  /\ scal'[i] # 0                         \* evaluates this action on given pairs of states, need not enumerate it
  /\ \A k \in Ids : k # i => scal'[k] = scal[k]
  /\ started' = [started EXCEPT ![i] = TRUE]
  /\ gaveMsg' = [gaveMsg EXCEPT ![i] = TRUE]
  /\ nmsg' = [nmsg EXCEPT ![i] = @ + 1]
  /\ entropy' = [entropy EXCEPT ![i] = @ + 1]
  /\ UNCHANGED <<alive, finished, gaveKey, restored, nkey, origin, saved, limbo>>

(* the first finish(): consumed whatever it does; a key needs a started      *)
(* instance (finish() before start() raises)                                 *)
LFinish(i, key) ==
  /\ alive[i] /\ ~finished[i]
  /\ key => started[i]
  /\ finished' = [finished EXCEPT ![i] = TRUE]
  /\ gaveKey' = [gaveKey EXCEPT ![i] = key]
  /\ nkey' = [nkey EXCEPT ![i] = IF key THEN @ + 1 ELSE @]
  /\ UNCHANGED <<alive, started, gaveMsg, restored, nmsg, entropy, origin, saved, scal, limbo>>

(* serialize() on a started instance                                         *)
LSerialize(i) ==
  /\ alive[i] /\ started[i]
  /\ saved' = saved \cup {i}
  /\ UNCHANGED <<alive, started, finished, gaveMsg, gaveKey, restored, nmsg, nkey, entropy, origin, scal, limbo>>

(* from_serialized() on state saved by i: a started instance that has sent   *)
(* nothing itself and has not finished; draws no entropy                     *)
LRestore(j, i) ==
  /\ i \in saved /\ ~alive[j]
  /\ alive' = [alive EXCEPT ![j] = TRUE]
  /\ started' = [started EXCEPT ![j] = TRUE]
  /\ restored' = [restored EXCEPT ![j] = TRUE]
  /\ origin' = [origin EXCEPT ![j] = i]
  /\ scal' = [scal EXCEPT ![j] = scal[i]]
  /\ UNCHANGED <<finished, gaveMsg, gaveKey, nmsg, nkey, entropy, saved, limbo>>

(* crash and revive in one step (Spake2!PersistAndRevive)                     *)
LPersistAndRevive(j, i) ==
  /\ alive[i] /\ started[i] /\ ~alive[j]
  /\ saved' = saved \cup {i}
  /\ alive' = [alive EXCEPT ![j] = TRUE]
  /\ started' = [started EXCEPT ![j] = TRUE]
  /\ restored' = [restored EXCEPT ![j] = TRUE]
  /\ origin' = [origin EXCEPT ![j] = i]
  /\ scal' = [scal EXCEPT ![j] = scal[i]]
  /\ UNCHANGED <<finished, gaveMsg, gaveKey, nmsg, nkey, entropy, limbo>>

(* start() with an entropy function that raises: no message, no scalar, no    *)
(* entropy accounted; the instance is in limbo (a later start() may still be  *)
(* THE start, or be refused)                                                  *)
LStartFails(i) ==
  /\ alive[i] /\ ~started[i]
  /\ limbo' = [limbo EXCEPT ![i] = TRUE]
  /\ UNCHANGED <<alive, started, finished, gaveMsg, gaveKey, restored, nmsg, nkey, entropy, origin, saved, scal>>

(* every call that must raise - start() again or on a restored instance,     *)
(* finish() again, serialize() before start(), from_serialized() of a bad or *)
(* mismatching state - changes nothing: it is a stuttering step              *)
LRefused == UNCHANGED lvars

LNext ==
  \/ \E i \in Ids : LNew(i) \/ LStart(i) \/ LSerialize(i) \/ LStartFails(i)
  \/ \E i \in Ids : \E key \in BOOLEAN : LFinish(i, key)
  \/ \E i, j \in Ids : LRestore(j, i) \/ LPersistAndRevive(j, i)
  \/ LRefused

LSpec == LInit /\ [][LNext]_lvars

(* for the refinement check from Spake2-based models                         *)
StepOK == [][LNext]_lvars

(* ---------------------------------------------------------------------- *)
(* properties (C07, C11), for histories of any length                      *)
(* ---------------------------------------------------------------------- *)
AtMostOneMsg       == \A i \in Ids : nmsg[i] <= 1
RestoredNeverSends == \A i \in Ids : restored[i] => nmsg[i] = 0
AtMostOneKey       == \A i \in Ids : nkey[i] <= 1
KeyNeedsStart      == \A i \in Ids : nkey[i] > 0 => started[i]
EntropyOnlyInStart == \A i \in Ids : entropy[i] = nmsg[i]
SavedWereStarted   == \A i \in saved : i \in Ids /\ alive[i] /\ started[i]
RestoredFromSaved  == \A j \in Ids : restored[j] => (origin[j] \in saved /\ started[j])
(* a started instance has a scalar; a restored one has its origin's (C07, C08) *)
ScalarInLineage    == \A j \in Ids : /\ (started[j] <=> scal[j] # 0)
                                       /\ (restored[j] => scal[j] = scal[origin[j]])
(* an instance whose only start() calls failed has sent nothing, has no key,   *)
(* no scalar and nothing on disk                                             *)
LimboHasNothing    == \A i \in Ids : (limbo[i] /\ ~started[i]) =>
                                        (nmsg[i] = 0 /\ nkey[i] = 0 /\ scal[i] = 0 /\ i \notin saved /\ entropy[i] = 0)
Safety == /\ LimboHasNothing /\ AtMostOneMsg /\ RestoredNeverSends /\ AtMostOneKey /\ KeyNeedsStart /\ EntropyOnlyInStart
          /\ SavedWereStarted /\ RestoredFromSaved /\ ScalarInLineage

(* C07: the scalar reported by serialize() never changes during the life of an instance (an ACTION invariant:  *)
(* it holds of every step, so Apalache checks it on one step from any state satisfying IndInv)               *)
ScalarNeverChanges == \A i \in Ids : started[i] => scal'[i] = scal[i]

(* a started instance stays started; a key, once given, stays given         *)
Monotone == [][\A i \in Ids : /\ (started[i] => started'[i]) /\ (finished[i] => finished'[i])
                              /\ (alive[i] => alive'[i]) /\ nmsg[i] <= nmsg'[i] /\ nkey[i] <= nkey'[i]]_lvars

(* ---------------------------------------------------------------------- *)
(* the inductive invariant                                                 *)
(* ---------------------------------------------------------------------- *)
IndInv ==
  /\ alive \in [Ids -> BOOLEAN] /\ started \in [Ids -> BOOLEAN] /\ finished \in [Ids -> BOOLEAN]
  /\ gaveMsg \in [Ids -> BOOLEAN] /\ gaveKey \in [Ids -> BOOLEAN] /\ restored \in [Ids -> BOOLEAN]
  /\ nmsg \in [Ids -> 0..1] /\ nkey \in [Ids -> 0..1] /\ entropy \in [Ids -> 0..1]
  /\ origin \in [Ids -> 0..NIds]
  /\ saved \in SUBSET Ids
  /\ scal \in [Ids -> 0..NScal]
  /\ limbo \in [Ids -> BOOLEAN]
  /\ \A i \in Ids :
       /\ (limbo[i] => alive[i] /\ ~restored[i])
       /\ (started[i] <=> scal[i] # 0)
       /\ (restored[i] => (origin[i] \in Ids /\ scal[i] = scal[origin[i]]))
       /\ nmsg[i] = (IF gaveMsg[i] THEN 1 ELSE 0)
       /\ nkey[i] = (IF gaveKey[i] THEN 1 ELSE 0)
       /\ entropy[i] = nmsg[i]
       /\ (gaveKey[i] => finished[i] /\ started[i])
       /\ (gaveMsg[i] => started[i] /\ ~restored[i])
       /\ (started[i] => alive[i]) /\ (finished[i] => alive[i])
       /\ (started[i] <=> (gaveMsg[i] \/ restored[i]))
       /\ (restored[i] <=> origin[i] # 0)
       /\ (restored[i] => origin[i] \in saved)
  /\ \A i \in saved : alive[i] /\ started[i]

THEOREM LSpec => []Safety
=============================================================================
