----------------------------- MODULE MC_Restore -----------------------------
(***************************************************************************)
(* C09 design check: state saved by every class under every parameter set  *)
(* of a family is offered to from_serialized() of every class under every  *)
(* parameter set of the family.  The family: a base set; the same group    *)
(* with M, N or S changed (one at a time); the same (p,q) / curve with a   *)
(* different generator and identical M, N, S; a different group.           *)
(***************************************************************************)
EXTENDS Spake2, Toy

CONSTANTS T2P, T2Q, T2G, T2BY,     \* the second group (same kind as the first)
          T3P, T3G                  \* integer groups: a third group with the SAME q and element size, another p

G1 == ToyGroup
G2 == IF TKIND = "int" THEN [kind |-> "int", p |-> T2P, q |-> T2Q, g |-> T2G]
      ELSE MkCurve(T2P, T2G, T2Q, T2BY)
(* same subgroup, another generator: 2.G                                       *)
G1alt == IF TKIND = "int" THEN [G1 EXCEPT !.g = IG_Mul(G1, G1.g, 2)]
         ELSE MkCurve(G1.Q, G1.d, G1.L, AffMul(G1, EdBase(G1), 2)[2])
Base0 == DefaultParams
Family == [base  |-> Base0,
           Mdiff |-> [Base0 EXCEPT !.M = GMul(G1, GBase(G1), 1)],
           Ndiff |-> [Base0 EXCEPT !.N = GMul(G1, GBase(G1), 1)],
           Sdiff |-> [Base0 EXCEPT !.S = GMul(G1, GBase(G1), 1)],
           gen   |-> [Base0 EXCEPT !.grp = G1alt],
           other |-> ParamsFrom(G2, 2, 3, 4),
           sameq |-> IF TKIND = "int" THEN ParamsFrom([kind |-> "int", p |-> T3P, q |-> TQ, g |-> T3G], 2, 3, 4)
                     ELSE ParamsFrom(G2, 3, 2, 4)]
MC_ParamSets == {Family[k] : k \in DOMAIN Family}
MC_Passwords == {PwOfClass(1, 0), PwOfClass(0, 0)}
MC_IdPairs == {<<<<97>>, <<98>>>>}
MC_ClassSet == Classes
MC_ScalarChoices(g) == {0, 1, 3}

(* one saved session per behaviour; the invariant then tries every restore     *)
RestoreNext ==
  \/ /\ Len(st) = 0
     /\ \E cls \in Classes, ps \in MC_ParamSets, pw \in MC_Passwords : New(cls, ps, pw, <<<<97>>, <<98>>>>)
  \/ /\ Len(st) = 1 /\ ~st[1].started
     /\ \E x \in MC_ScalarChoices(st[1].ps.grp) : Start(1, x)
  \/ /\ Len(st) = 1 /\ st[1].started /\ disk = {}
     /\ Serialize(1)
RestoreSpec == Init /\ [][RestoreNext]_vars

UsedDiffer(cls, ps, ps0) ==
  \/ ps.grp # ps0.grp
  \/ IF cls = "S" THEN ps.S # ps0.S ELSE (ps.M # ps0.M \/ ps.N # ps0.N)
(* F6: the two sets differ, in what the role uses, ONLY in the generator         *)
GeneratorOnly(cls, ps, ps0) ==
  /\ ps.grp # ps0.grp
  /\ IF cls = "S" THEN ps.S = ps0.S ELSE (ps.M = ps0.M /\ ps.N = ps0.N)
  /\ IF TKIND = "int" THEN [ps.grp EXCEPT !.g = ps0.grp.g] = ps0.grp
     ELSE [ps.grp EXCEPT !.By = ps0.grp.By, !.Bx = ps0.grp.Bx] = ps0.grp

Sound(d, cls, ps, excuseF6) ==
  LET o == RestoreOutcome(cls, ps, d.blob)
      orig == st[d.by]
  IN /\ (d.cls \in {"A", "B"} /\ cls # d.cls) => o = Err("WrongSideSerialized")
     /\ (d.cls = "S" /\ cls # "S") => IsErr(o)
     /\ (cls = d.cls /\ UsedDiffer(cls, ps, d.ps) /\ ~(excuseF6 /\ GeneratorOnly(cls, ps, d.ps)))
           => o = Err("WrongGroupError")
     /\ (o.t = "inst" /\ ~(excuseF6 /\ GeneratorOnly(cls, ps, d.ps))) =>
           /\ o.v.out = orig.out
           /\ \A m \in {<<66>> \o GEnc(G1, GBase(G1)), <<65>> \o GEnc(G1, GBase(G1)), <<83>> \o GEnc(G1, GBase(G1)),
                        <<66>> \o orig.out, <<83>> \o orig.out} :
                 Process(o.v, m) = Process(orig, m)
     /\ (cls = d.cls /\ ps = d.ps) => o.t = "inst"
RestoreSound      == \A d \in disk : \A cls \in Classes, ps \in MC_ParamSets : Sound(d, cls, ps, FALSE)
RestoreSoundButF6 == \A d \in disk : \A cls \in Classes, ps \in MC_ParamSets : Sound(d, cls, ps, TRUE)
(* the family really separates everything but the generator                    *)
ASSUME \A k1, k2 \in DOMAIN Family : k1 # k2 => Family[k1] # Family[k2]
=============================================================================
