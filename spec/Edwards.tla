------------------------------ MODULE Edwards ------------------------------
(***************************************************************************)
(* ed25519_basic.py as data: the twisted Edwards curve                     *)
(*      -x^2 + y^2 = 1 + d x^2 y^2   over GF(Q),  Q = 5 (mod 8),           *)
(* with 8*L points, L prime.  A curve is a record built by MkCurve; the    *)
(* real Ed25519 and the toy curves differ only in the four numbers         *)
(* Q, d, L, By - exactly the four module constants of the library.         *)
(*                                                                         *)
(* Two layers:                                                             *)
(*  - the VALUE level: affine points <<x,y>>, the textbook addition law,   *)
(*    n-fold addition, canonical 32-byte encoding, strict decoding.  This  *)
(*    is what the session layer and the properties talk about.             *)
(*  - the IMPLEMENTATION level: extended coordinates <<X,Y,Z,T>> with the  *)
(*    three EFD formulas and the two ladders transcribed line by line from *)
(*    the library, and xrecover.  MC_EdFormulas proves on toy curves that  *)
(*    this layer refines the value level (C12).                            *)
(***************************************************************************)
EXTENDS Num, Bytes, Codec, Hashing

FAdd(c, a, b) == NMod(NAdd(a, b), c.Q)
FSub(c, a, b) == NMod(NSub(NAdd(a, c.Q), b), c.Q)        \* a, b < Q
FMul(c, a, b) == NMod(NMul(a, b), c.Q)
FSq(c, a)     == FMul(c, a, a)
FNeg(c, a)    == NMod(NSub(c.Q, a), c.Q)
FInv(c, a)    == NExpMod(a, NSub(c.Q, NLit(2)), c.Q)
F1 == NLit(1)
F0 == NLit(0)

(* ---------------------------------------------------------------------- *)
(* value level                                                            *)
(* ---------------------------------------------------------------------- *)
EdId == <<F0, F1>>

OnCurve(c, P) ==
  LET xx == FSq(c, P[1])  yy == FSq(c, P[2])
  IN FSub(c, yy, xx) = FAdd(c, F1, FMul(c, c.d, FMul(c, xx, yy)))

(* the complete twisted Edwards addition law for a = -1                      *)
AffAdd(c, P1, P2) ==
  LET x1 == P1[1]  y1 == P1[2]  x2 == P2[1]  y2 == P2[2]
      t  == FMul(c, c.d, FMul(c, FMul(c, x1, x2), FMul(c, y1, y2)))
      x3 == FMul(c, FAdd(c, FMul(c, x1, y2), FMul(c, y1, x2)), FInv(c, FAdd(c, F1, t)))
      y3 == FMul(c, FAdd(c, FMul(c, y1, y2), FMul(c, x1, x2)), FInv(c, FSub(c, F1, t)))
  IN <<x3, y3>>
AffNeg(c, P) == <<FNeg(c, P[1]), P[2]>>

RECURSIVE AffMul(_, _, _)
AffMul(c, P, n) ==                       \* n-fold addition, n a number >= 0
  IF NIsZero(n) THEN EdId
  ELSE LET h  == AffMul(c, P, NShr(n, 1))
           hh == AffAdd(c, h, h)
       IN IF NOdd(n) THEN AffAdd(c, hh, P) ELSE hh

(* xrecover: the even "square root" candidate of (y^2-1)/(d y^2+1)           *)
XRecover(c, y) ==
  LET yy == FSq(c, y)
      xx == FMul(c, FSub(c, yy, F1), FInv(c, FAdd(c, FMul(c, c.d, yy), F1)))
      x0 == NExpMod(xx, NDiv(NAdd(c.Q, NLit(3)), NLit(8)), c.Q)
      x1 == IF FSq(c, x0) = xx THEN x0 ELSE FMul(c, x0, c.I)
  IN IF NOdd(x1) THEN NSub(c.Q, x1) ELSE x1

MkCurve(Q, d, L, By) ==
  LET c0 == [kind |-> "ed", Q |-> Q, d |-> d, L |-> L, By |-> By,
             I |-> NExpMod(NLit(2), NDiv(NSub(Q, NLit(1)), NLit(4)), Q), Bx |-> F0]
  IN [c0 EXCEPT !.Bx = XRecover(c0, By)]
EdBase(c) == <<c.Bx, c.By>>

(* encodepoint: y little-endian in 32 bytes, bit 255 = parity of x            *)
EdEnc(c, P) ==
  LET yb == NToBytesLE(P[2], 32)
  IN IF NOdd(P[1]) THEN [yb EXCEPT ![32] = yb[32] + 128] ELSE yb

EdInSubgroup(c, P) == AffMul(c, P, c.L) = EdId

EdReject == [ok |-> FALSE, e |-> EdId]
(* strict decoding (C05): exactly 32 bytes, y < Q, sign bit only on odd x,   *)
(* on the curve, in the order-L subgroup, not the identity                   *)
EdDecodePoint(c, b) ==               \* any curve point, canonical encoding only
  IF Len(b) # 32 THEN EdReject
  ELSE LET sign == b[32] >= 128
           yb   == [b EXCEPT ![32] = b[32] % 128]
           yr   == NFromBytesLt(Reverse(yb), c.Q)
       IN IF ~yr.ok THEN EdReject
          ELSE LET y  == yr.v
                   x0 == XRecover(c, y)
                   x  == IF NOdd(x0) # sign THEN NMod(NSub(c.Q, x0), c.Q) ELSE x0
               IN IF NOdd(x) # sign THEN EdReject          \* sign bit on x = 0
                  ELSE IF ~OnCurve(c, <<x, y>>) THEN EdReject
                  ELSE [ok |-> TRUE, e |-> <<x, y>>]
EdDec(c, b) ==
  LET r == EdDecodePoint(c, b)
  IN IF ~r.ok THEN EdReject
     ELSE IF r.e = EdId THEN EdReject
     ELSE IF ~EdInSubgroup(c, r.e) THEN EdReject
     ELSE r

(* arbitrary_element: first curve point at or after the derived y (even x    *)
(* candidate), multiplied by 8, skipping candidates whose multiple is the    *)
(* identity                                                                  *)
RECURSIVE EdArbFromY(_, _)
EdArbFromY(c, y) ==
  LET P  == <<XRecover(c, y), y>>
      nx == NMod(NAdd(y, NLit(1)), c.Q)
  IN IF ~OnCurve(c, P) THEN EdArbFromY(c, nx)
     ELSE LET P8 == AffMul(c, P, NLit(8))
          IN IF P8 = EdId THEN EdArbFromY(c, nx) ELSE P8
EdArbY(c, seed) == NMod(NFromBytes(ExpandSeed(seed, 48)), c.Q)
EdArbElem(c, seed) == EdArbFromY(c, EdArbY(c, seed))

(* scalars: 32 bytes little-endian; encoding reduces mod L, decoding does not *)
EdScalarEnc(c, n) == [ok |-> TRUE, v |-> NToBytesLE(NMod(n, c.L), 32)]
EdScalarDec(c, b) == IF Len(b) # 32 THEN [ok |-> FALSE, e |-> F0]
                     ELSE [ok |-> TRUE, e |-> NFromBytesLE(b)]

(* ---------------------------------------------------------------------- *)
(* implementation level: extended coordinates, transcribed                *)
(* ---------------------------------------------------------------------- *)
ToExt(c, P) == <<P[1], P[2], F1, FMul(c, P[1], P[2])>>
ToAffine(c, R) == LET zi == FInv(c, R[3]) IN <<FMul(c, R[1], zi), FMul(c, R[2], zi)>>
Scale(c, P, z) == <<FMul(c, P[1], z), FMul(c, P[2], z), z, FMul(c, FMul(c, P[1], P[2]), z)>>
ValidExt(c, R) == R[3] # F0 /\ FMul(c, R[4], R[3]) = FMul(c, R[1], R[2])

DblExt(c, R) ==                         \* dbl-2008-hwcd (double_element)
  LET X1 == R[1]  Y1 == R[2]  Z1 == R[3]
      A == FSq(c, X1)
      B == FSq(c, Y1)
      C == FMul(c, NLit(2), FSq(c, Z1))
      D == FNeg(c, A)
      J == FAdd(c, X1, Y1)
      E == FSub(c, FSub(c, FSq(c, J), A), B)
      G == FAdd(c, D, B)
      F == FSub(c, G, C)
      H == FSub(c, D, B)
  IN <<FMul(c, E, F), FMul(c, G, H), FMul(c, F, G), FMul(c, E, H)>>

AddExt3(c, R1, R2) ==                   \* add-2008-hwcd-3, unified (add_elements)
  LET X1 == R1[1] Y1 == R1[2] Z1 == R1[3] T1 == R1[4]
      X2 == R2[1] Y2 == R2[2] Z2 == R2[3] T2 == R2[4]
      A == FMul(c, FSub(c, Y1, X1), FSub(c, Y2, X2))
      B == FMul(c, FAdd(c, Y1, X1), FAdd(c, Y2, X2))
      C == FMul(c, FMul(c, T1, FMul(c, NLit(2), c.d)), T2)
      D == FMul(c, FMul(c, Z1, NLit(2)), Z2)
      E == FSub(c, B, A)
      F == FSub(c, D, C)
      G == FAdd(c, D, C)
      H == FAdd(c, B, A)
  IN <<FMul(c, E, F), FMul(c, G, H), FMul(c, F, G), FMul(c, E, H)>>

AddExt4(c, R1, R2) ==                   \* add-2008-hwcd-4, dedicated (_add_elements_nonunfied)
  LET X1 == R1[1] Y1 == R1[2] Z1 == R1[3] T1 == R1[4]
      X2 == R2[1] Y2 == R2[2] Z2 == R2[3] T2 == R2[4]
      A == FMul(c, FSub(c, Y1, X1), FAdd(c, Y2, X2))
      B == FMul(c, FAdd(c, Y1, X1), FSub(c, Y2, X2))
      C == FMul(c, FMul(c, Z1, NLit(2)), T2)
      D == FMul(c, FMul(c, T1, NLit(2)), Z2)
      E == FAdd(c, D, C)
      F == FSub(c, B, A)
      G == FAdd(c, B, A)
      H == FSub(c, D, C)
  IN <<FMul(c, E, F), FMul(c, G, H), FMul(c, F, G), FMul(c, E, H)>>

ExtId == <<F0, F1, F1, F0>>
RECURSIVE LadderSlow(_, _, _)
LadderSlow(c, R, n) ==                  \* scalarmult_element_safe_slow
  IF NIsZero(n) THEN ExtId
  ELSE LET h == DblExt(c, LadderSlow(c, R, NShr(n, 1)))
       IN IF NOdd(n) THEN AddExt3(c, h, R) ELSE h
RECURSIVE LadderFast(_, _, _)
LadderFast(c, R, n) ==                  \* scalarmult_element
  IF NIsZero(n) THEN ExtId
  ELSE LET h == DblExt(c, LadderFast(c, R, NShr(n, 1)))
       IN IF NOdd(n) THEN AddExt4(c, h, R) ELSE h

IsExtendedZero(c, R) == R[1] = F0 /\ R[2] = R[3] /\ R[2] # F0

(* the side condition of the dedicated addition: P1 - P2 is not one of the  *)
(* four points of order 1, 2, 4                                              *)
Order124(c, P) == AffMul(c, P, NLit(4)) = EdId
=============================================================================
