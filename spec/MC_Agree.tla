------------------------------ MODULE MC_Agree ------------------------------
(***************************************************************************)
(* C01 design check.  One exchange (A with B, or S with S) over one toy    *)
(* group with EVERY password class w, EVERY pair of secret scalars (x,y),  *)
(* every interleaving of start / serialize / restore / finish, messages    *)
(* delivered unmodified.  Checks Agreement, and the single-use, entropy    *)
(* and persistence invariants along the way.                               *)
(***************************************************************************)
EXTENDS Spake2, Toy

CONSTANTS PAIRING,   \* "AB" or "SS"
          WSET       \* set of password classes explored (a subset of 0..q-1)

MC_ParamSets == {DefaultParams}
MC_Passwords == {PwOfClass(w, 0) : w \in WSET}
MC_IdPairs == {<<<<97>>, <<98>>>>}
MC_ClassSet == IF PAIRING = "AB" THEN {"A", "B"} ELSE {"S"}
MC_ScalarChoices(g) == AllScalars(g)
MC_Attacker(w, s) == {}

(* one exchange: the first two instances are the two ends, created with the  *)
(* same password; every further instance is a restored copy                  *)
OneExchange ==
  /\ Len(st) >= 1 => st[1].cls = (IF PAIRING = "AB" THEN "A" ELSE "S")
  /\ Len(st) >= 2 => (st[2].cls = (IF PAIRING = "AB" THEN "B" ELSE "S") /\ st[2].pw = st[1].pw)
  /\ \A i \in 3..Len(st) : st[i].restored
(* keep the network honest: finish() only with the peer's message (by side)  *)
=============================================================================
