------------------------------ MODULE MC_Agree ------------------------------
(***************************************************************************)
(* C01 design check.  One exchange (A with B, or S with S) over one toy    *)
(* group with EVERY password class w, EVERY pair of secret scalars (x,y),  *)
(* every interleaving of start / serialize / restore / finish, messages    *)
(* delivered unmodified.  Checks Agreement, and the single-use, entropy    *)
(* and persistence invariants along the way.                               *)
(***************************************************************************)
EXTENDS Spake2, Toy

CONSTANTS PAIRING,   \* "AB" or "SS"
          WSET       \* set of password classes explored (a subset of 0..q-1)

MC_ParamSets == {DefaultParams}
MC_Passwords == {PwOfClass(w, 0) : w \in WSET}
MC_IdPairs == {<<<<97>>, <<98>>>>}
MC_ClassSet == IF PAIRING = "AB" THEN {"A", "B"} ELSE {"S"}
MC_ScalarChoices(g) == AllScalars(g)
MC_Attacker(w, s) == {}

(* one exchange: the first two instances are the two ends, created with the  *)
(* same password; every further instance is a restored copy                  *)
OneExchange ==
  /\ Len(st) >= 1 => st[1].cls = (IF PAIRING = "AB" THEN "A" ELSE "S")
  /\ Len(st) >= 2 => (st[2].cls = (IF PAIRING = "AB" THEN "B" ELSE "S") /\ st[2].pw = st[1].pw)
  /\ \A i \in 3..Len(st) : st[i].restored

(* ---------------------------------------------------------------------- *)
(* The same exchange on ONE fixed schedule (new, new, start, start,        *)
(* [serialize, restore]*, finish, finish), for state spaces where every    *)
(* interleaving would be too large: all (w, x, y) of bigger groups.  The   *)
(* steps are the actions of Spake2.                                        *)
(* ---------------------------------------------------------------------- *)
CONSTANT NRESTORE        \* how many times end 1 is persisted and revived before finish()
CA == IF PAIRING = "AB" THEN "A" ELSE "S"
CB == IF PAIRING = "AB" THEN "B" ELSE "S"
Cur == Len(st)           \* the newest copy of end 1 (instance 1 or its last restored copy)
SeqNext ==
  \/ /\ Len(st) = 0
     /\ \E pw \in MC_Passwords : New(CA, DefaultParams, pw, <<<<97>>, <<98>>>>)
  \/ /\ Len(st) = 1
     /\ New(CB, DefaultParams, st[1].pw, <<<<97>>, <<98>>>>)
  \/ /\ Len(st) = 2 /\ ~st[1].started
     /\ \E x \in AllScalars(ToyGroup) : Start(1, x)
  \/ /\ Len(st) = 2 /\ st[1].started /\ ~st[2].started
     /\ \E y \in AllScalars(ToyGroup) : Start(2, y)
  \/ /\ Len(st) >= 2 /\ st[2].started /\ nrest < NRESTORE /\ Cardinality(disk) = nrest
     /\ Serialize(IF Cur = 2 THEN 1 ELSE Cur)
  \/ /\ Len(st) >= 2 /\ st[2].started /\ nrest < NRESTORE /\ Cardinality(disk) = nrest + 1
     /\ \E d \in disk : d.by = (IF Cur = 2 THEN 1 ELSE Cur) /\ Restore(CA, DefaultParams, d)
  \/ /\ Len(st) >= 2 /\ st[2].started /\ nrest = NRESTORE
     /\ LET a == IF Cur = 2 THEN 1 ELSE Cur IN
        \/ aux[a].nfin = 0 /\ Finish(a, SentBy(2))
        \/ aux[a].nfin = 1 /\ aux[2].nfin = 0 /\ Finish(2, SentBy(a))
SeqSpec == Init /\ [][SeqNext]_vars
=============================================================================
