---------------------------- MODULE Spake2Trace ----------------------------
(***************************************************************************)
(* Trace validation: executions recorded from the real python-spake2 code  *)
(* (one event per public call: arguments, entropy served, result bytes or  *)
(* exception class) are checked against the specification.  The FULL-SIZE  *)
(* instance is used (real SHA-256, BigNat numbers), so messages, keys and  *)
(* serialized state are compared byte for byte - on toy groups and on the  *)
(* shipped ones alike.                                                     *)
(*                                                                         *)
(* Because every input of every call is logged, each event has exactly one *)
(* successor state: validation is linear in the trace length.  The verdict *)
(* is total: an event the specification does not allow is recorded in      *)
(* `errs` with the clause that failed and what was expected, the model     *)
(* continues with the specified outcome, and one RESULT line per trace is  *)
(* printed when its last event has been consumed.  The runner requires a   *)
(* RESULT line for every trace (no silent truncation).                     *)
(***************************************************************************)
EXTENDS TraceEvents

Traces == T.traces

VARIABLES tid, l, st, tx, errs
tvars == <<tid, l, st, tx, errs>>

Events == Traces[tid].events

TraceInit == /\ tid \in 1..Len(Traces)
             /\ l = 1
             /\ st = << >>
             /\ tx = << >>
             /\ errs = <<>>

Consume ==
  /\ l <= Len(Events)
  /\ LET ev == Events[l]
         r  == EventVerdict2(st, tx, ev)    \* [ok, why, exp, st, tx]
     IN /\ st' = r.st
        /\ tx' = r.tx
        /\ errs' = IF r.ok \/ Len(errs) >= 5 THEN errs
                   ELSE Append(errs, [l |-> l, op |-> ev.op, why |-> r.why, expected |-> r.exp])
  /\ l' = l + 1
  /\ UNCHANGED tid

Finished ==
  /\ l = Len(Events) + 1
  /\ PrintT("RESULT " \o ToJson([tid |-> tid, name |-> Traces[tid].name, n |-> Len(Events), errs |-> errs]))
  /\ l' = l + 1
  /\ UNCHANGED <<tid, st, tx, errs>>

TraceNext == Consume \/ Finished
TraceSpec == TraceInit /\ [][TraceNext]_tvars
=============================================================================
