---------------------------- MODULE TraceEvents ----------------------------
(***************************************************************************)
(* Decoding of recorded events (harness/trace.schema.json) and the verdict *)
(* for each kind of event.  Bytes travel as hex strings, numbers as hex    *)
(* strings of their big-endian bytes (TLC integers are 32 bit).            *)
(***************************************************************************)
EXTENDS TracePure

T == PT

HNum(h) == PHNum(h)
ParamTable == [n \in DOMAIN T.params |->
                 LET r == T.params[n]
                     g == GroupTable[r.grp]
                 IN [grp |-> g,
                     M |-> GArbElem(g, HexToBytes(r.M)),
                     N |-> GArbElem(g, HexToBytes(r.N)),
                     S |-> GArbElem(g, HexToBytes(r.S))]]

(* entropy log of an event as Sampler expects it                             *)
EntLog(ev) == [i \in 1..Len(ev.ent) |-> [req |-> ev.ent[i].req, got |-> HexToBytes(ev.ent[i].got)]]
NoEntropy(ev) == Len(ev.ent) = 0

GRandomScalar(grp, log) ==
  IF IsEd(grp) THEN EdRandomScalar(grp.L, log) ELSE Randrange(NLit(0), grp.q, log)

Obs(o) == IF o.t = "msg" THEN Msg(HexToBytes(o.v))
          ELSE IF o.t = "key" THEN Key(HexToBytes(o.v))
          ELSE IF o.t = "err" THEN Err(o.v)
          ELSE [t |-> o.t, v |-> <<>>]

Show(o) == IF o.t \in {"msg", "key"} THEN [t |-> o.t, v |-> BytesToHex(o.v)]
           ELSE IF o.t = "err" THEN o
           ELSE [t |-> o.t, v |-> "..."]
ShowSet(S) == ToJson({Show(o) : o \in S})

Good(s)          == [ok |-> TRUE,  why |-> "ok", exp |-> "", st |-> s]
Bad(why, exp, s) == [ok |-> FALSE, why |-> why,  exp |-> exp, st |-> s]

Put(st, id, s) == (id :> s) @@ st

(* the blob dictionary of an event (strings) as the record of byte strings   *)
(* BlobOf produces: every field hex except "side"                            *)
BlobBytes(f) == [k \in DOMAIN f |-> IF k = "side" THEN StrToBytes(f[k]) ELSE HexToBytes(f[k])]

VNew(st, ev) ==
  IF ev.inst \in DOMAIN st THEN Bad("harness: instance id reused", "", st)
  ELSE LET s == NewInst(ev.cls, ParamTable[ev.ps], HexToBytes(ev.pw), HexToBytes(ev.idA), HexToBytes(ev.idB))
           st2 == Put(st, ev.inst, s)
       IN IF ~NoEntropy(ev) THEN Bad("C11: the constructor drew entropy", "", st2)
          ELSE Good(st2)

VStart(st, ev) ==
  LET s == st[ev.inst]
      o == Obs(ev.out)
  IN IF s.started
     THEN IF ~NoEntropy(ev) THEN Bad("C11: entropy drawn by a start() that must raise", "", st)
          ELSE IF Matches(o, Err("OnlyCallStartOnce")) THEN Good(st)
          ELSE Bad("C07: start() on a started or restored instance", ShowSet({Err("OnlyCallStartOnce")}), st)
     ELSE LET r == GRandomScalar(s.ps.grp, EntLog(ev))
          IN IF ~r.ok
             THEN Bad("C11: " \o r.why, "", Put(st, ev.inst, [s EXCEPT !.started = TRUE]))
             ELSE LET e  == StartOutcome(s, r.v)
                      s2 == StartNext(s, r.v, e)
                  IN IF Matches(o, e) THEN Good(Put(st, ev.inst, s2))
                     ELSE Bad("C03: start() message is not side || Enc(x*G + w*Blinding)", ShowSet({e}), Put(st, ev.inst, s2))

VFinish(st, ev) ==
  LET s    == st[ev.inst]
      o    == Obs(ev.out)
      outs == FinishOutcomes(s, HexToBytes(ev.arg))
      hit  == {e \in outs : Matches(o, e)}
      pick == IF hit # {} THEN CHOOSE e \in hit : TRUE
              ELSE CHOOSE e \in outs : \A f \in outs : f.t = "err" => e.t = "err"
      st2  == Put(st, ev.inst, FinishNext(s, pick))
  IN IF ~NoEntropy(ev) THEN Bad("C11: finish() drew entropy", "", st2)
     ELSE IF hit # {} THEN Good(st2)
     ELSE Bad("finish() outcome not allowed by the specification", ShowSet(outs), st2)

VSerialize(st, ev) ==
  LET s == st[ev.inst]
      e == SerializeOutcome(s)
  IN IF ~NoEntropy(ev) THEN Bad("C11: serialize() drew entropy", "", st)
     ELSE IF e.t = "err"
          THEN IF Matches(Obs(ev.out), e) THEN Good(st)
               ELSE Bad("C07: serialize() before start()", ShowSet({e}), st)
     ELSE IF ev.out.t # "blob" THEN Bad("C08: serialize() raised on a started instance", "", st)
     ELSE IF ~IsPrintableAscii(HexToBytes(ev.out.raw)) THEN Bad("C08: serialize() output is not printable ASCII", "", st)
     ELSE IF DOMAIN ev.out.fields # DOMAIN e.v
          THEN Bad("C10: serialized field set", ToJson(DOMAIN e.v), st)
     ELSE LET got == BlobBytes(ev.out.fields)
              bad == {k \in DOMAIN e.v : got[k] # e.v[k]}
          IN IF bad = {} THEN Good(st)
             ELSE Bad("C10: serialized field value", ToJson([k \in bad |-> BytesToHex(e.v[k])]), st)

VRestore(st, ev) ==
  IF ev.inst \in DOMAIN st THEN Bad("harness: instance id reused", "", st)
  ELSE LET e == RestoreOutcome(ev.cls, ParamTable[ev.ps], BlobBytes(ev.blob))
           o == Obs(ev.out)
           st2 == IF e.t = "inst" THEN Put(st, ev.inst, e.v) ELSE st
       IN IF ~NoEntropy(ev) THEN Bad("C11: from_serialized() drew entropy", "", st2)
          ELSE IF e.t = "inst"
               THEN IF o.t # "inst" THEN Bad("C08/C10: from_serialized() refused state in the released format", "inst", st2)
                    ELSE IF HexToBytes(ev.out.outbound) # e.v.out
                         THEN Bad("C09: restored instance has a different outbound message", BytesToHex(e.v.out), st2)
                    ELSE Good(st2)
               ELSE IF Matches(o, e) THEN Good(st2)
                    ELSE Bad("C09: from_serialized() under the wrong role or parameters", ShowSet({e}), st2)

(* the live shared singletons of a parameter set, dumped by the harness      *)
VConsts(st, ev) ==
  LET ps == ParamTable[ev.ps]
      g  == ps.grp
      exp == [base |-> GEnc(g, GBase(g)), zero |-> GEnc(g, GIdentity(g)),
              M |-> GEnc(g, ps.M), N |-> GEnc(g, ps.N), S |-> GEnc(g, ps.S),
              order |-> NToBytes(GOrder(g), GSSize(g))]
      bad == {k \in DOMAIN exp : HexToBytes(ev.vals[k]) # exp[k]}
  IN IF bad = {} THEN Good(st)
     ELSE Bad("C16/C03: shared parameter objects differ from their specified values",
              ToJson([k \in bad |-> BytesToHex(exp[k])]), st)

EventVerdict(st, ev) ==
  CASE ev.op = "new"       -> VNew(st, ev)
    [] ev.op = "start"     -> VStart(st, ev)
    [] ev.op = "finish"    -> VFinish(st, ev)
    [] ev.op = "serialize" -> VSerialize(st, ev)
    [] ev.op = "restore"   -> VRestore(st, ev)
    [] ev.op = "consts"    -> VConsts(st, ev)
    [] OTHER               -> LET r == PureVerdict(ev) IN [ok |-> r.ok, why |-> r.why, exp |-> r.exp, st |-> st]
=============================================================================
