---------------------------- MODULE TraceEvents ----------------------------
(***************************************************************************)
(* Decoding of recorded events (harness/trace.schema.json) and the verdict *)
(* for each kind of event.  Bytes travel as hex strings, numbers as hex    *)
(* strings of their big-endian bytes (TLC integers are 32 bit).            *)
(***************************************************************************)
EXTENDS TracePure

T == PT

HNum(h) == PHNum(h)
ParamTable == ParamTableP

(* entropy log of an event as Sampler expects it                             *)
EntLog(ev) == [i \in 1..Len(ev.ent) |-> [req |-> ev.ent[i].req, got |-> HexToBytes(ev.ent[i].got)]]
NoEntropy(ev) == Len(ev.ent) = 0

GRandomScalar(grp, log) ==
  IF IsEd(grp) THEN EdRandomScalar(grp.L, log) ELSE Randrange(NLit(0), grp.q, log)

Obs(o) == IF o.t = "msg" THEN Msg(HexToBytes(o.v))
          ELSE IF o.t = "key" THEN Key(HexToBytes(o.v))
          ELSE IF o.t = "err" THEN Err(o.v)
          ELSE [t |-> o.t, v |-> <<>>]

Show(o) == IF o.t \in {"msg", "key"} THEN [t |-> o.t, v |-> BytesToHex(o.v)]
           ELSE IF o.t = "err" THEN o
           ELSE [t |-> o.t, v |-> "..."]
ShowSet(S) == ToJson({Show(o) : o \in S})

Good(s)          == [ok |-> TRUE,  why |-> "ok", exp |-> "", st |-> s]
Bad(why, exp, s) == [ok |-> FALSE, why |-> why,  exp |-> exp, st |-> s]

Put(st, id, s) == (id :> s) @@ st

(* the blob dictionary of an event (strings) as the record of byte strings   *)
(* BlobOf produces: every field hex except "side"                            *)
BlobBytes(f) == [k \in DOMAIN f |-> IF k = "side" THEN StrToBytes(f[k]) ELSE HexToBytes(f[k])]

VNew(st, ev) ==
  IF ev.inst \in DOMAIN st THEN Bad("harness: instance id reused", "", st)
  ELSE LET s == NewInst(ev.cls, ParamTable[ev.ps], HexToBytes(ev.pw), HexToBytes(ev.idA), HexToBytes(ev.idB))
                  @@ [lin |-> ev.inst]            \* lineage: a constructor call starts a new one
           st2 == Put(st, ev.inst, s)
       IN IF ~NoEntropy(ev) THEN Bad("C11: the constructor drew entropy", "", st2)
          ELSE Good(st2)

(* ev.entfail: the entropy function handed to the instance raised during this call *)
EntFailed(ev) == "entfail" \in DOMAIN ev
VStart(st, ev) ==
  LET s == st[ev.inst]
      o == Obs(ev.out)
  IN IF s.started
     THEN IF ~NoEntropy(ev) \/ EntFailed(ev) THEN Bad("C11: entropy drawn by a start() that must raise", "", st)
          ELSE IF Matches(o, Err("OnlyCallStartOnce")) THEN Good(st)
          ELSE Bad("C07: start() on a started or restored instance", ShowSet({Err("OnlyCallStartOnce")}), st)
     ELSE IF EntFailed(ev) /\ o.t = "err"
     THEN Good(Put(st, ev.inst, StartFailedNext(s)))           \* no message, no scalar: limbo
     ELSE IF s.limbo /\ NoEntropy(ev) /\ o = Err("OnlyCallStartOnce")
     THEN Good(st)                                              \* the failed call counted as the start()
     ELSE LET r == GRandomScalar(s.ps.grp, EntLog(ev))
          IN IF ~r.ok
             THEN Bad("C11: " \o r.why, "", Put(st, ev.inst, [s EXCEPT !.started = TRUE]))
             ELSE LET e  == StartOutcome(s, r.v)
                      s2 == StartNext(s, r.v, e)
                  IN IF Matches(o, e) THEN Good(Put(st, ev.inst, s2))
                     ELSE Bad("C03: start() message is not side || Enc(x*G + w*Blinding)", ShowSet({e}), Put(st, ev.inst, s2))

VFinish(st, ev) ==
  LET s    == st[ev.inst]
      o    == Obs(ev.out)
      outs == FinishOutcomes(s, HexToBytes(ev.arg))
      hit  == {e \in outs : Matches(o, e)}
      pick == IF hit # {} THEN CHOOSE e \in hit : TRUE
              ELSE CHOOSE e \in outs : \A f \in outs : f.t = "err" => e.t = "err"
      st2  == Put(st, ev.inst, FinishNext(s, pick))
  IN IF ~NoEntropy(ev) THEN Bad("C11: finish() drew entropy", "", st2)
     ELSE IF hit # {} THEN Good(st2)
     ELSE Bad("finish() outcome not allowed by the specification", ShowSet(outs), st2)

VSerialize(st, ev) ==
  LET s == st[ev.inst]
      e == SerializeOutcome(s)
  IN IF ~NoEntropy(ev) THEN Bad("C11: serialize() drew entropy", "", st)
     ELSE IF e.t = "err"
          THEN IF Matches(Obs(ev.out), e) THEN Good(st)
               ELSE Bad("C07: serialize() before start()", ShowSet({e}), st)
     ELSE IF ev.out.t # "blob" THEN Bad("C08: serialize() raised on a started instance", "", st)
     ELSE IF ~IsPrintableAscii(HexToBytes(ev.out.raw)) THEN Bad("C08: serialize() output is not printable ASCII", "", st)
     ELSE IF DOMAIN ev.out.fields # DOMAIN e.v
          THEN Bad("C10: serialized field set", ToJson(DOMAIN e.v), st)
     ELSE IF \E k \in DOMAIN ev.out.fields : k # "side" /\ ~IsHexString(ev.out.fields[k])
          THEN Bad("C10: a serialized field is not hex-encoded", "", st)
     ELSE LET got == BlobBytes(ev.out.fields)
              bad == {k \in DOMAIN e.v : got[k] # e.v[k]}
          IN IF bad = {} THEN Good(st)
             ELSE Bad("C10: serialized field value", ToJson([k \in bad |-> BytesToHex(e.v[k])]), st)

(* a state dictionary is well formed if every field the class needs is present   *)
(* and is a string of hex digits (side: the class letter); anything else must be  *)
(* refused by from_serialized() (beyond the listed properties: robustness)        *)
Needed(cls) == IF cls = "S" THEN BlobFieldsS ELSE BlobFieldsAB
WellFormedBlob(cls, f) ==
  /\ "side" \in DOMAIN f
  /\ \A k \in Needed(cls) \cap DOMAIN f : k = "side" \/ IsHexString(f[k])
(* the fields the class reads, as byte strings (fields it never reads are ignored) *)
BlobBytesFor(cls, f) == [k \in Needed(cls) \cap DOMAIN f |-> IF k = "side" THEN StrToBytes(f[k]) ELSE HexToBytes(f[k])]
VRestoreMalformed(st, ev) ==
  IF ev.out.t = "inst" THEN Bad("from_serialized() returned an instance for malformed state", "any exception", st)
  ELSE IF ~NoEntropy(ev) THEN Bad("C11: from_serialized() drew entropy", "", st)
  ELSE Good(st)
VRestore(st, ev) ==
  IF ev.inst \in DOMAIN st THEN Bad("harness: instance id reused", "", st)
  ELSE IF "malformed" \in DOMAIN ev \/ ~WellFormedBlob(ev.cls, ev.blob) THEN VRestoreMalformed(st, ev)
  ELSE LET bb == BlobBytesFor(ev.cls, ev.blob)
           e == RestoreOutcome(ev.cls, ParamTable[ev.ps], bb)
           o == Obs(ev.out)
           \* a revived instance continues the lineage of the instance whose state it was given
           src == {k \in DOMAIN st : st[k].hasx /\ <<SideByte(st[k].cls)>> = bb.side /\ st[k].pw = bb.password
                                      /\ GScalarEnc(st[k].ps.grp, st[k].x).v = bb.xy_scalar
                                      /\ (IF st[k].cls = "S" THEN "idS" \in DOMAIN bb /\ st[k].idA = bb.idS
                                          ELSE "idA" \in DOMAIN bb /\ st[k].idA = bb.idA /\ st[k].idB = bb.idB)}
           lin == IF src = {} THEN ev.inst ELSE st[CHOOSE k \in src : TRUE].lin
           st2 == IF e.t = "inst" THEN Put(st, ev.inst, e.v @@ [lin |-> lin]) ELSE st
       IN IF ~NoEntropy(ev) THEN Bad("C11: from_serialized() drew entropy", "", st2)
          ELSE IF e.t = "inst"
               THEN IF o.t # "inst" THEN Bad("C08/C10: from_serialized() refused state in the released format", "inst", st2)
                    ELSE IF "outbound" \in DOMAIN ev.out /\ HexToBytes(ev.out.outbound) # e.v.out
                         THEN Bad("C09: restored instance has a different outbound message", BytesToHex(e.v.out), st2)
                    ELSE Good(st2)
               ELSE IF Matches(o, e) THEN Good(st2)
                    \* state of another role saved under other parameters: the property names both errors, either is right
                    ELSE IF e = Err("WrongSideSerialized") /\ o = Err("WrongGroupError") /\ "hashed_params" \in DOMAIN bb
                            /\ bb.hashed_params # Fingerprint(ev.cls, ParamTable[ev.ps]) THEN Good(st2)
                    ELSE Bad("C09: from_serialized() under the wrong role or parameters", ShowSet({e}), st2)

(* the outbound_message attribute of a restored instance, read by the tracer  *)
(* only after the instance's finish() has returned (or at the end of the trace) *)
VPeek(st, ev) ==
  IF ev.inst \notin DOMAIN st THEN Good(st)
  ELSE IF ev.out.t = "val" /\ HexToBytes(ev.out.v) = st[ev.inst].out THEN Good(st)
  ELSE Bad("C09: restored instance has a different outbound message", BytesToHex(st[ev.inst].out), st)

(* the live shared singletons of a parameter set, dumped by the harness      *)
VConsts(st, ev) ==
  LET ps == ParamTable[ev.ps]
      g  == ps.grp
      exp == [base |-> GEnc(g, GBase(g)), zero |-> GEnc(g, GIdentity(g)),
              M |-> GEnc(g, ps.M), N |-> GEnc(g, ps.N), S |-> GEnc(g, ps.S),
              order |-> NToBytes(GOrder(g), GSSize(g))]
      bad == {k \in DOMAIN exp : HexToBytes(ev.vals[k]) # exp[k]}
  IN IF bad = {} THEN Good(st)
     ELSE Bad("C16/C03: shared parameter objects differ from their specified values",
              ToJson([k \in bad |-> BytesToHex(exp[k])]), st)

EventVerdict(st, ev) ==
  CASE ev.op \in {"start", "finish", "serialize"} /\ ev.inst \notin DOMAIN st
                           -> Bad("call on an instance that exists although the specification refused to create it", "", st)
    [] ev.op = "new"       -> VNew(st, ev)
    [] ev.op = "start"     -> VStart(st, ev)
    [] ev.op = "finish"    -> VFinish(st, ev)
    [] ev.op = "serialize" -> VSerialize(st, ev)
    [] ev.op = "restore"   -> VRestore(st, ev)
    [] ev.op = "consts"    -> VConsts(st, ev)
    [] ev.op = "peek"      -> VPeek(st, ev)
    [] OTHER               -> LET r == PureVerdict(ev) IN [ok |-> r.ok, why |-> r.why, exp |-> r.exp, st |-> st]
(* ---- C02 on implementation traces: whenever finish() returns a key, compare  *)
(* it with the keys the other instances of the trace returned                  *)
PeerCls(c1, c2) == (c1 = "A" /\ c2 = "B") \/ (c1 = "B" /\ c2 = "A") \/ (c1 = "S" /\ c2 = "S")
SameEnd(s, t) == s.lin = t.lin          \* an instance and its revived copies are one end
Sent(s) == <<SideByte(s.cls)>> \o s.out
UsedAgree(s, t) == /\ s.ps.grp = t.ps.grp
                   /\ IF s.cls = "S" THEN s.ps.S = t.ps.S ELSE (s.ps.M = t.ps.M /\ s.ps.N = t.ps.N)
DegenerateScalars(s, t) ==
  LET q == GOrder(s.ps.grp)
  IN \/ NIsZero(GPwScalar(s.ps.grp, s.pw)) \/ NIsZero(NMod(s.x, q)) \/ NIsZero(NMod(t.x, q))
     \/ (s.cls = "S" /\ NIsZero(NMod(NAdd(s.x, t.x), q)))
(* tx: instance |-> [key, inb] of the finish() that returned a key              *)
KeyCheck(st, tx, i, key, inb) ==
  LET s == st[i]
      clash == {j \in DOMAIN tx : j # i /\ tx[j].key = key /\ PeerCls(s.cls, st[j].cls) /\ ~SameEnd(s, st[j])}
      bad == {j \in clash : ~( /\ s.pw = st[j].pw /\ s.idA = st[j].idA /\ s.idB = st[j].idB
                               /\ inb = Sent(st[j]) /\ tx[j].inb = Sent(s) /\ UsedAgree(s, st[j]) )}
  IN IF bad = {} THEN "ok"
     ELSE LET j == CHOOSE j \in bad : TRUE
          IN IF s.pw = st[j].pw /\ s.idA = st[j].idA /\ s.idB = st[j].idB /\ inb = Sent(st[j]) /\ tx[j].inb = Sent(s)
                /\ s.ps.grp.kind = st[j].ps.grp.kind /\ GOrder(s.ps.grp) = GOrder(st[j].ps.grp) /\ DegenerateScalars(s, st[j])
             THEN "F8: ends whose parameters differ only in a blinding element or the generator agree on a key because a secret or password scalar is degenerate (0, or x+y = 0 for Symmetric)"
             ELSE IF s.cls = "S" /\ st[j].cls = "S" /\ s.out = st[j].out /\ inb = tx[j].inb /\ s.pw = st[j].pw /\ s.idA = st[j].idA
                     /\ UsedAgree(s, st[j])
             THEN "F9: two Symmetric ends that sent the same element (same password and secret scalar) were handed the same substituted message and agree on a key"
             ELSE "C02: two ends obtained the same key although their views (password, identities, messages as sent, parameters) differ: " \o i \o " and " \o j

EventVerdict2(st, tx, ev) ==
  LET r == EventVerdict(st, ev)
  IN IF ev.op = "finish" /\ ev.out.t = "key" /\ ev.inst \in DOMAIN st
     THEN LET key == HexToBytes(ev.out.v)
              inb == HexToBytes(ev.arg)
              kc  == KeyCheck(st, tx, ev.inst, key, inb)
              tx2 == (ev.inst :> [key |-> key, inb |-> inb]) @@ tx
          IN IF r.ok /\ kc # "ok" THEN [ok |-> FALSE, why |-> kc, exp |-> "", st |-> r.st, tx |-> tx2]
             ELSE [ok |-> r.ok, why |-> r.why, exp |-> r.exp, st |-> r.st, tx |-> tx2]
     ELSE [ok |-> r.ok, why |-> r.why, exp |-> r.exp, st |-> r.st, tx |-> tx]
=============================================================================
