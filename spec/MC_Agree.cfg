SPECIFICATION Spec
CONSTANTS
  TKIND = "int"  TP = 11  TQ = 5  TG = 4  TBY = 0
  PAIRING = "AB"
  WSET = {0, 1, 4}
  ParamSets <- MC_ParamSets
  Passwords <- MC_Passwords
  IdPairs <- MC_IdPairs
  ClassSet <- MC_ClassSet
  MaxInst = 3
  MaxRestore = 1
  ScalarChoices <- MC_ScalarChoices
  Attacker <- MC_Attacker
CONSTRAINT OneExchange
INVARIANT Agreement
INVARIANT AtMostOneMsg
INVARIANT AtMostOneKey
INVARIANT EntropyOnlyInStart
INVARIANT RestoreEquivalent
INVARIANT NeverKeyForWrongSide
INVARIANT KeyOnlyFromCanonical
PROPERTY ScalarStable
CHECK_DEADLOCK FALSE
