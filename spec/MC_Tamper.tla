----------------------------- MODULE MC_Tamper -----------------------------
(***************************************************************************)
(* C02 design check.  Two ends of one exchange (A with B, or S with S),    *)
(* EVERY pair of secret scalars, and a configurable difference:            *)
(*   DIFF = "none"     same everything - then the attacker tampers         *)
(*          "pwclass"  passwords of different scalar classes               *)
(*          "pwbytes"  different passwords of the SAME scalar class        *)
(*          "idA" / "idB" / "swap"   identities differ / are swapped       *)
(*          "M" / "N" / "S" / "gen" / "group"  parameter sets differ in    *)
(*                     one blinding element, the generator, the group      *)
(* Both start; then each end is given either the other's message as sent   *)
(* or ANY string of the tampering universe (one-sided: every string;       *)
(* two-sided: every pair from the structured subset).                      *)
(* NoAgreementUnlessSameView must hold; with parameter-only differences    *)
(* it holds except for the degenerate-scalar coincidences (finding F8).    *)
(***************************************************************************)
EXTENDS Spake2, Toy

CONSTANTS PAIRING, DIFF, WSET, TAMPER,     \* TAMPER in {"none", "one", "two"}
          XSET                             \* the secret scalars tried (all of [0,q) except in the quick one-sided run)

CA == IF PAIRING = "AB" THEN "A" ELSE "S"
CB == IF PAIRING = "AB" THEN "B" ELSE "S"
G1 == ToyGroup
G1alt == IF TKIND = "int" THEN [G1 EXCEPT !.g = IG_Mul(G1, G1.g, 2)]
         ELSE MkCurve(G1.Q, G1.d, G1.L, AffMul(G1, EdBase(G1), 2)[2])
PSA == DefaultParams
OtherElem(e) == GAdd(G1, e, GBase(G1))
PSB == CASE DIFF = "M" -> [PSA EXCEPT !.M = OtherElem(PSA.M)]
         [] DIFF = "N" -> [PSA EXCEPT !.N = OtherElem(PSA.N)]
         [] DIFF = "S" -> [PSA EXCEPT !.S = OtherElem(PSA.S)]
         [] DIFF = "gen" -> [PSA EXCEPT !.grp = G1alt]
         [] OTHER -> PSA
IdsA == <<<<97>>, <<98>>>>
IdsB == CASE DIFF = "idA" -> <<<<97, 0>>, <<98>>>>
          [] DIFF = "idB" -> <<<<97>>, <<>>>>
          [] DIFF = "swap" -> <<<<98>>, <<97>>>>
          [] DIFF = "join" -> <<<<97, 98>>, <<>>>>
          [] OTHER -> IdsA
PwB(pwA) == CASE DIFF = "pwclass" -> PwOfClass((pwA[1] + 1) % NToInt(GOrder(G1)), 0)
              [] DIFF = "pwbytes" -> PwOfClass(pwA[1], 1)
              [] OTHER -> pwA

(* the tampering universe for a message m = side || body sent to instance s   *)
(* (operators with a dummy parameter: TLC would evaluate constant definitions eagerly) *)
Bytes1 == {<<a>> : a \in 0..255}
Elems == {GEnc(G1, e) : e \in Subgroup(G1)}
AllShort(u) == IF GESize(G1) = 1 THEN {<<>>} \cup Bytes1 \cup {<<a, b>> : a \in 0..255, b \in 0..255}
            ELSE {<<>>} \cup Bytes1 \cup Elems \cup {e \o <<0>> : e \in Elems} \cup {e1 \o e2 : e1 \in Elems, e2 \in Elems}
                 \cup {SubSeq(e, 1, Len(e) - 1) : e \in Elems} \cup {[e EXCEPT ![1] = (@ + 1) % 256] : e \in Elems}
                 \cup {[e EXCEPT ![Len(e)] = (@ + 128) % 256] : e \in Elems}
Structured(m, own) ==
  LET b == Tail(m) IN
  {b, b \o b, b \o own, own \o b, b \o <<0>>, <<0>> \o b, SubSeq(b, 1, Len(b) - 1), own,
   GEnc(G1, GIdentity(G1)), GEnc(G1, GBase(G1)), GEnc(G1, PSA.M), GEnc(G1, PSA.N), GEnc(G1, PSA.S)}
PeerSide(cls) == IF cls = "A" THEN 66 ELSE IF cls = "B" THEN 65 ELSE 83
SideSample == {0, 65, 66, 83, 97, 98, 115, 67, 255}      \* two-sided runs: a sample of altered side bytes (one-sided: all 255)

TamperNext ==
  \/ /\ Len(st) = 0
     /\ \E w \in WSET : New(CA, PSA, PwOfClass(w, 0), IdsA)
  \/ /\ Len(st) = 1
     /\ New(CB, PSB, PwB(st[1].pw), IdsB)
  \/ /\ Len(st) = 2 /\ ~st[1].started
     /\ \E x \in AllScalars(G1) \cap XSET : Start(1, x)
  \/ /\ Len(st) = 2 /\ st[1].started /\ ~st[2].started
     /\ \E y \in AllScalars(G1) \cap XSET : Start(2, y)
  \/ /\ Len(st) = 2 /\ st[2].started /\ aux[1].nfin = 0 /\ aux[2].nfin = 0
     /\ \/ Finish(1, SentBy(2))
        \/ TAMPER = "one" /\ \E b \in AllShort(0) : Finish(1, <<PeerSide(CA)>> \o b)
        \/ TAMPER \in {"one", "two"} /\ \E sb \in (IF TAMPER = "one" THEN 0..255 ELSE SideSample) :
              sb # PeerSide(CA) /\ Finish(1, <<sb>> \o Tail(SentBy(2)))                     \* altered side byte
        \/ TAMPER = "two" /\ \E b \in Structured(SentBy(2), st[1].out) : Finish(1, <<PeerSide(CA)>> \o b)
  \/ /\ Len(st) = 2 /\ aux[1].nfin = 1 /\ aux[2].nfin = 0
     /\ \/ Finish(2, SentBy(1))
        \/ TAMPER = "two" /\ \E b \in Structured(SentBy(1), st[2].out) : Finish(2, <<PeerSide(CB)>> \o b)
        \/ TAMPER = "two" /\ \E sb \in SideSample : sb # PeerSide(CB) /\ Finish(2, <<sb>> \o Tail(SentBy(1)))
        \/ TAMPER = "one" /\ aux[1].arg1 = SentBy(2) /\ \E b \in AllShort(0) : Finish(2, <<PeerSide(CB)>> \o b)
TamperSpec == Init /\ [][TamperNext]_vars

(* F8: with a parameter-only difference the two ends can still agree when a    *)
(* scalar is degenerate                                                        *)
Wof(i) == GPwScalar(st[i].ps.grp, st[i].pw)
Degenerate(i, j) ==
  LET q == GOrder(G1) IN
  \/ Wof(i) = 0 \/ st[i].x % q = 0 \/ st[j].x % q = 0
  \/ (st[i].cls = "S" /\ (st[i].x + st[j].x) % q = 0)
NoAgreementButF8 ==
  \A i, j \in Inst : EqualKeys(i, j) =>
     \/ SameView(i, j) /\ UsedParamsAgree(i, j)
     \/ SameView(i, j) /\ ~UsedParamsAgree(i, j) /\ Degenerate(i, j)
(* F9: two Symmetric ends that happen to send the SAME element (same password, *)
(* same secret scalar) and are both handed the same substituted message agree  *)
SameElementSymmetric(i, j) ==
  /\ st[i].cls = "S" /\ st[j].cls = "S" /\ st[i].out = st[j].out /\ aux[i].inb = aux[j].inb
  /\ st[i].pw = st[j].pw /\ st[i].idA = st[j].idA /\ UsedParamsAgree(i, j)
NoAgreementButF9 ==
  \A i, j \in Inst : EqualKeys(i, j) =>
     \/ SameView(i, j) /\ UsedParamsAgree(i, j)
     \/ SameElementSymmetric(i, j)
NoWitnessAgreementSameView == ~\E i, j \in Inst : EqualKeys(i, j) /\ SameView(i, j)
NoWitnessKeyFromTampered == ~\E i \in Inst : aux[i].nkey > 0 /\ aux[i].inb # SentBy(3 - i)
=============================================================================
