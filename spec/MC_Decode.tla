----------------------------- MODULE MC_Decode -----------------------------
(***************************************************************************)
(* C05 design check: on a toy group the computational decoder GDec (the    *)
(* one the session layer and the trace validator use; for Edwards the      *)
(* xrecover path with the strictness conditions) accepts EXACTLY the       *)
(* canonical encodings of prime-order-subgroup members (Edwards: other     *)
(* than the identity), of exactly the element size, and returns the        *)
(* encoded element.  One initial state per attacker string.                *)
(***************************************************************************)
EXTENDS Toy, TLC

CONSTANT MAXY        \* Edwards: every y below MAXY (and both sign bits) is tried

G == ToyGroup
Refused == IF GRefusesIdentity(G) THEN {GIdentity(G)} ELSE {}
Canon == {GEnc(G, e) : e \in Subgroup(G) \ Refused}

Bytes1 == {<<a>> : a \in 0..255}
Bytes2 == {<<a, b>> : a \in 0..255, b \in 0..255}
IntStrings ==
  IF IG_ESize(G) = 1 THEN {<<>>} \cup Bytes1 \cup Bytes2
  ELSE {<<>>} \cup Bytes1 \cup Bytes2
       \cup {<<0>> \o c : c \in Canon} \cup {c \o <<0>> : c \in Canon} \cup {c \o c : c \in Canon}
       \cup {<<a>> \o c : a \in {1, 255}, c \in Canon}

EdY(y, s) == LET b == NToBytesLE(y, 32) IN [b EXCEPT ![32] = b[32] + 128 * s]
EdStrings ==
  {EdY(y, s) : y \in 0..(MAXY - 1), s \in {0, 1}}
  \cup {SubSeq(c, 1, 31) : c \in Canon} \cup {c \o <<0>> : c \in Canon} \cup {c \o c : c \in Canon}
  \cup {<<>>} \cup Bytes1
  \cup {[c EXCEPT ![k] = 1] : c \in Canon, k \in {3, 17, 31}}      \* huge y
  \cup {[c EXCEPT ![32] = c[32] + 64] : c \in Canon}                 \* bit 254
Strings == IF IsEd(G) THEN EdStrings ELSE IntStrings

(* canon, sub: the constant sets Canon and Subgroup(G), carried in the state  *)
(* so that they are computed once and not once per string                    *)
(* Two-stage fan-out so that all TLC workers share the strings (TLC evaluates  *)
(* initial states on one thread): stage 1 picks a class, stage 2 a string.    *)
NPART == 32
VARIABLES b, canon, sub, part
NoString == <<0 - 1>>
ClassOf(s) == IF s = <<>> THEN 0 ELSE (s[1] + (IF Len(s) > 1 THEN 7 * s[2] ELSE 0)) % NPART
Init == canon = Canon /\ sub = Subgroup(G) /\ b = NoString /\ part = 0
Next == \/ part = 0 /\ part' \in 1..NPART /\ UNCHANGED <<b, canon, sub>>
        \/ part > 0 /\ b = NoString /\ b' \in {s \in Strings : ClassOf(s) = part - 1} /\ UNCHANGED <<canon, sub, part>>
Spec == Init /\ [][Next]_<<b, canon, sub, part>>

StrictDecode == (b # NoString) =>
  LET r == GDec(G, b)
  IN /\ r.ok <=> b \in canon
     /\ r.ok => (Len(b) = GESize(G) /\ GEnc(G, r.e) = b /\ r.e \in sub /\ r.e \notin Refused)

(* encodings are injective on the subgroup and have exactly the element size *)
ASSUME Cardinality(Canon) = Cardinality(Subgroup(G) \ Refused)
ASSUME Cardinality(Subgroup(G)) = NToInt(GOrder(G))
ASSUME \A c \in Canon : Len(c) = GESize(G)
(* vacuity: something is accepted, something rejected                         *)
ASSUME Canon \subseteq Strings /\ Strings \ Canon # {}
ASSUME PrintT(<<"MC_Decode", Cardinality(Strings), Cardinality(Canon)>>)
=============================================================================
