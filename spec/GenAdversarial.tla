--------------------------- MODULE GenAdversarial ---------------------------
(***************************************************************************)
(* Spec -> code: adversarial encodings for a FULL-SIZE group, computed     *)
(* from the specification (BigNat instance), never from the code under     *)
(* test.  The group is read from the GEN_FILE json (same descriptor format *)
(* as trace headers); the result is printed as one JSON line.              *)
(***************************************************************************)
EXTENDS Group, Json, IOUtils, TLC

D == JsonDeserialize(IOEnv.GEN_FILE)
HN(h) == NFromBytes(HexToBytes(h))
G == IF D.kind = "int" THEN [kind |-> "int", p |-> HN(D.p), q |-> HN(D.q), g |-> HN(D.g)]
     ELSE MkCurve(HN(D.Q), HN(D.d), HN(D.L), HN(D.By))

(* ---- integer groups ------------------------------------------------------ *)
(* values with a regular bit structure (m * 2^k and neighbours, p minus them): *)
(* membership code that manipulates bits - Jacobi / Legendre shortcuts, window *)
(* tables, word-wise loops - goes wrong on such values, not on random ones.    *)
(* Bit positions: all of them when D.step = 1, otherwise k with k mod step in  *)
(* {0, 1, step-1}.  Absent step: no structured family.                         *)
BigPow2(k) == NFromBytes(<<2 ^ (k % 8)>> \o [i \in 1..(k \div 8) |-> 0])
RECURSIVE SeqOfSet(_)
SeqOfSet(S) == IF S = {} THEN <<>> ELSE LET x == CHOOSE y \in S : TRUE IN <<x>> \o SeqOfSet(S \ {x})
Structured ==
  IF "step" \notin DOMAIN D THEN <<>>
  ELSE LET p == G.p  n == IG_ESize(G)  step == D.step
           pos == {k \in 0..(NBitLen(p) - 1) : step = 1 \/ k % step \in {0, 1, step - 1}}
           vals == UNION {
                     LET v == NMul(NLit(m), BigPow2(k)) IN
                     {v, NAdd(v, NLit(1)), NSub(v, NLit(1)), NMod(NSub(NMul(p, NLit(8)), v), p),
                      IG_Mul(G, G.g, BigPow2(k))}                           \* g^(2^k): a member with structure in the exponent
                     : <<m, k>> \in {1, 3, 5} \X pos }
           ok == {v \in vals : NLt(v, p)}
           seqOf == SeqOfSet(ok)
       IN [i \in 1..Len(seqOf) |-> [k |-> "structured value", b |-> NToBytes(seqOf[i], n)]]
IntCases ==
  LET p == G.p  n == IG_ESize(G)  one == NLit(1)
      enc(v) == NToBytes(v, n)
      gB == IG_Enc(G, G.g)
  IN << [k |-> "zero",        b |-> enc(NLit(0))],
        [k |-> "identity",    b |-> enc(one)],
        [k |-> "p-1",         b |-> enc(NSub(p, one))],
        [k |-> "p",           b |-> enc(p)],
        [k |-> "two",         b |-> enc(NLit(2))],
        [k |-> "three",       b |-> enc(NLit(3))],
        [k |-> "generator",   b |-> gB],
        [k |-> "minus g",     b |-> enc(NSub(p, G.g))],
        [k |-> "g squared",   b |-> enc(IG_Mul(G, G.g, NLit(2)))],
        [k |-> "g^(q-1)",     b |-> enc(IG_Mul(G, G.g, NSub(G.q, one)))],
        [k |-> "g^3",         b |-> enc(IG_Mul(G, G.g, NLit(3)))],
        [k |-> "g^-3",        b |-> enc(IG_Mul(G, G.g, NSub(G.q, NLit(3))))],
        [k |-> "minus g^3",   b |-> enc(NSub(p, IG_Mul(G, G.g, NLit(3))))],
        [k |-> "truncated",   b |-> SubSeq(gB, 1, n - 1)],
        [k |-> "tail cut",    b |-> SubSeq(gB, 2, n)],
        [k |-> "extended 00", b |-> gB \o <<0>>],
        [k |-> "prefixed 00", b |-> <<0>> \o gB],
        [k |-> "doubled",     b |-> gB \o gB],
        [k |-> "empty",       b |-> <<>>] >>
  \o Structured
  \o (IF NBitLen(NAdd(p, one)) <= 8 * n
      THEN << [k |-> "p+1 (wraps to identity if reduced)", b |-> NToBytes(NAdd(p, one), n)] >> ELSE <<>>)
  \o (IF NBitLen(NAdd(p, G.g)) <= 8 * n
      THEN << [k |-> "p+g (wraps to g if reduced)", b |-> NToBytes(NAdd(p, G.g), n)] >> ELSE <<>>)

(* ---- Edwards ------------------------------------------------------------- *)
(* y coordinates with a regular bit structure (see Structured above), both sign bits *)
EdStructured ==
  IF "step" \notin DOMAIN D THEN <<>>
  ELSE LET q == G.Q  step == D.step
           raw(y, s) == LET b == NToBytesLE(y, 32) IN [b EXCEPT ![32] = b[32] + 128 * s]
           pos == {k \in 0..(NBitLen(q) - 1) : step = 1 \/ k % step \in {0, 1, step - 1}}
           vals == UNION { LET v == NMul(NLit(m), BigPow2(k)) IN
                           {v, NAdd(v, NLit(1)), NSub(v, NLit(1)), NMod(NSub(NMul(q, NLit(8)), v), q)}
                           : <<m, k>> \in {1, 3, 5} \X pos }
           ok == {v \in vals : NBitLen(v) <= 255}
           seqOf == SeqOfSet(ok)
       IN [i \in 1..(2 * Len(seqOf)) |-> [k |-> "structured y", b |-> raw(seqOf[(i + 1) \div 2], i % 2)]]

RECURSIVE FirstY(_, _)
(* first y >= y0 whose even-x candidate is a curve point with full 8-part      *)
FirstY(y0, want) ==
  LET P == <<XRecover(G, y0), y0>>
      ok == IF want = "order8L" THEN OnCurve(G, P) /\ AffMul(G, P, NMul(NLit(4), G.L)) # EdId
            ELSE ~OnCurve(G, P)
  IN IF ok THEN y0 ELSE FirstY(NAdd(y0, NLit(1)), want)
EdCases ==
  LET yW  == FirstY(NLit(2), "order8L")
      W   == <<XRecover(G, yW), yW>>                  \* a point of order 8L
      T8  == AffMul(G, W, G.L)                         \* a generator of the 8-torsion
      tors == [k \in 0..7 |-> AffMul(G, T8, NLit(k))]
      B   == EdBase(G)
      B2  == AffMul(G, B, NLit(2))
      eB  == EdEnc(G, B)
      yOff == FirstY(NLit(2), "offcurve")
      q   == G.Q
      raw(y, s) == LET b == NToBytesLE(y, 32) IN [b EXCEPT ![32] = b[32] + 128 * s]
  IN [k \in 1..8 |-> [k |-> "torsion point", b |-> EdEnc(G, tors[k - 1])]]
     \o [k \in 1..7 |-> [k |-> "B + torsion (order 2L/4L/8L)", b |-> EdEnc(G, AffAdd(G, B, tors[k]))]]
     \o [k \in 1..7 |-> [k |-> "2B + torsion", b |-> EdEnc(G, AffAdd(G, B2, tors[k]))]]
     \o [k \in 1..7 |-> [k |-> "-B + torsion (one of them is the twin (x, -y) of B)", b |-> EdEnc(G, AffAdd(G, AffNeg(G, B), tors[k]))]]
     \o << [k |-> "3B", b |-> EdEnc(G, AffMul(G, B, NLit(3)))],
           [k |-> "-3B", b |-> EdEnc(G, AffNeg(G, AffMul(G, B, NLit(3))))] >>
     \o << [k |-> "order 8L point", b |-> EdEnc(G, W)],
           [k |-> "base point",     b |-> eB],
           [k |-> "2B",             b |-> EdEnc(G, B2)],
           [k |-> "-B",             b |-> EdEnc(G, AffNeg(G, B))],
           [k |-> "off-curve y",    b |-> raw(yOff, 0)],
           [k |-> "off-curve y, sign", b |-> raw(yOff, 1)],
           [k |-> "identity, sign bit set (x = 0)", b |-> raw(NLit(1), 1)],
           [k |-> "y = Q+1 (identity, non-canonical)", b |-> raw(NAdd(q, NLit(1)), 0)],
           [k |-> "y = Q+1, sign", b |-> raw(NAdd(q, NLit(1)), 1)],
           [k |-> "y = Q-1 (order 2)", b |-> raw(NSub(q, NLit(1)), 0)],
           [k |-> "y = Q-1, sign (x = 0)", b |-> raw(NSub(q, NLit(1)), 1)],
           [k |-> "y = Q", b |-> raw(q, 0)],
           [k |-> "y = Q (sign)", b |-> raw(q, 1)],
           [k |-> "y = 2^255-1", b |-> [i \in 1..32 |-> IF i = 32 THEN 127 ELSE 255]],
           [k |-> "all ones", b |-> [i \in 1..32 |-> 255]],
           [k |-> "y = 0 (order 4)", b |-> raw(NLit(0), 0)],
           [k |-> "y = 0, sign", b |-> raw(NLit(0), 1)],
           [k |-> "truncated to 31", b |-> SubSeq(eB, 1, 31)],
           [k |-> "first byte cut", b |-> SubSeq(eB, 2, 32)],
           [k |-> "extended 00", b |-> eB \o <<0>>],
           [k |-> "doubled", b |-> eB \o eB],
           [k |-> "empty", b |-> <<>>] >>
     \o [k \in 1..18 |-> [k |-> "y + Q for small y", b |-> raw(NAdd(q, NLit(k)), k % 2)]]
     \o EdStructured

Cases == IF IsEd(G) THEN EdCases ELSE IntCases
ASSUME PrintT("GEN " \o ToJson([k \in 1..Len(Cases) |-> [k |-> Cases[k].k, b |-> BytesToHex(Cases[k].b)]]))
VARIABLE dummy
Init == dummy = 0
Next == UNCHANGED dummy
=============================================================================
