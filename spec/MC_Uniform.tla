----------------------------- MODULE MC_Uniform -----------------------------
(***************************************************************************)
(* C04 design check: for every class and every password class w of a toy   *)
(* group, x |-> (element sent by start()) is a bijection from [0,q) onto   *)
(* the prime-order subgroup; the identities never influence the message;   *)
(* the password influences it only through its scalar class (the blinding  *)
(* term).  One case per (class, w).                                        *)
(***************************************************************************)
EXTENDS Spake2Core, Toy, TLC

G == ToyGroup
PS == DefaultParams
VARIABLES cls, w, sub
v == <<cls, w, sub>>
Init == sub = Subgroup(G) /\ cls \in Classes /\ w = 0 - 1
Next == w = 0 - 1 /\ w' \in AllScalars(G) /\ UNCHANGED <<cls, sub>>
Spec == Init /\ [][Next]_v
Ready == w >= 0

Sent(c, pw, x) == OutElem(c, PS, pw, x)
MsgBijective == Ready =>
  LET img == {Sent(cls, PwOfClass(w, 0), x) : x \in AllScalars(G)}
  IN /\ img = sub
     /\ Cardinality(img) = NToInt(GOrder(G))
     /\ \A x1, x2 \in AllScalars(G) : x1 # x2 => OutBytes(cls, PS, PwOfClass(w, 0), x1) # OutBytes(cls, PS, PwOfClass(w, 0), x2)
(* start() of instances that differ only in the identities / only in the       *)
(* password bytes of one scalar class                                          *)
MsgIgnoresIds == Ready =>
  \A x \in AllScalars(G) :
    StartOutcome(NewInst(cls, PS, PwOfClass(w, 0), <<97>>, <<98>>), x)
      = StartOutcome(NewInst(cls, PS, PwOfClass(w, 0), <<>>, <<99, 0>>), x)
MsgDependsOnPwOnlyViaW == Ready =>
  \A x \in AllScalars(G) :
    StartOutcome(NewInst(cls, PS, PwOfClass(w, 0), <<>>, <<>>), x) = StartOutcome(NewInst(cls, PS, PwOfClass(w, 7), <<>>, <<>>), x)
(* the message minus the blinding term is x.G: the algebraic identity used at full size *)
Unblinded == Ready =>
  \A x \in AllScalars(G) :
    GAdd(G, Sent(cls, PwOfClass(w, 0), x), GMul(G, Blinding(cls, PS), GNegScalar(G, w))) = GMul(G, GBase(G), x)
(* the message distribution is the same for every password: the image does not depend on w *)
ASSUME \A c \in Classes : \A e \in {PS.M, PS.N, PS.S} : e \in Subgroup(G) /\ e # GIdentity(G)
=============================================================================
