----------------------------- MODULE MC_History -----------------------------
(***************************************************************************)
(* C07 design check and behaviour generator: EVERY finite sequence of      *)
(* calls over the alphabet                                                 *)
(*   start, finish(valid), finish(own side), finish(unknown side),         *)
(*   finish(reflected), finish(undecodable), finish(identity), serialize,  *)
(*   restore-and-continue, start with an entropy function that raises      *)
(* on one instance lineage, including every call that must fail.           *)
(*  - EMIT = FALSE: no history is kept, the state graph is finite and TLC  *)
(*    covers histories of unbounded length (MaxRestore bounds the lineage) *)
(*  - EMIT = TRUE: the history (letter, outcome class) is kept up to       *)
(*    DEPTH and every history of that length is printed as a JSON line:    *)
(*    the behaviours that are replayed into the real code.                 *)
(***************************************************************************)
EXTENDS Spake2, Toy, Json

CONSTANTS CLS, W, X, DEPTH, EMIT

VARIABLE hist
hvars == <<vars, hist>>

Letters == <<"start", "fin_valid", "fin_own", "fin_unknown", "fin_reflect", "fin_undec", "fin_ident",
             "serialize", "restore", "start_fail">>
PeerSide(cls) == IF cls = "A" THEN 66 ELSE IF cls = "B" THEN 65 ELSE 83
G == ToyGroup
(* a decodable element encoding that is not the instance's own               *)
ValidBody(s) == GEnc(G, CHOOSE e \in Subgroup(G) : e # GIdentity(G) /\ GEnc(G, e) # s.out)
MsgFor(l, s) ==
  CASE l = "fin_valid"   -> <<PeerSide(CLS)>> \o ValidBody(s)
    [] l = "fin_own"     -> <<SideByte(CLS)>> \o ValidBody(s)
    [] l = "fin_unknown" -> <<67>> \o ValidBody(s)
    [] l = "fin_reflect" -> <<PeerSide(CLS)>> \o s.out
    [] l = "fin_undec"   -> <<PeerSide(CLS)>> \o ValidBody(s) \o <<0>>
    [] l = "fin_ident"   -> <<PeerSide(CLS)>> \o GEnc(G, GIdentity(G))

Cur == Len(st)
Call(l) ==
  CASE l = "start"     -> Start(Cur, X)
    \* start() with an entropy function that raises; on a started instance it raises OnlyCallStartOnce before asking
    [] l = "start_fail" -> StartFails(Cur) \/ (st[Cur].started /\ Start(Cur, X))
    [] l = "serialize" -> Serialize(Cur) \/ SerializeTooEarly(Cur)
    [] l = "restore"   -> (nrest < MaxRestore /\ PersistAndRevive(Cur)) \/ SerializeTooEarly(Cur)
    [] OTHER           -> Finish(Cur, MsgFor(l, st[Cur]))

HInit == Init /\ hist = <<>>
HNext ==
  \/ /\ Len(st) = 0
     /\ New(CLS, DefaultParams, PwOfClass(W, 0), <<<<97>>, <<98>>>>)
     /\ UNCHANGED hist
  \/ /\ Len(st) >= 1
     /\ (EMIT => Len(hist) < DEPTH)
     /\ \E k \in 1..Len(Letters) :
          /\ Call(Letters[k])
          /\ hist' = IF EMIT THEN Append(hist, <<Letters[k], aux'[Cur].lastc>> \o
                                            (IF Len(st') > Len(st) THEN <<"inst">> ELSE <<>>))
                     ELSE hist
HSpec == HInit /\ [][HNext]_hvars

Emit == (EMIT /\ Len(hist) = DEPTH) => PrintT("HIST " \o ToJson(hist))

(* C07 over the lineage                                                       *)
NoMsgFromRestored == \A i \in Inst : st[i].restored => aux[i].nmsg = 0
FinishBeforeStartRaised == \A i \in Inst : aux[i].early => (aux[i].nkey = 0 \/ ~aux[i].early)
SameScalarInLineage == \A i, j \in Inst : (st[i].hasx /\ st[j].hasx) => st[i].x = st[j].x
NoWitnessKeyAfterFailure == ~\E i \in Inst : aux[i].nfin >= 2 /\ aux[i].nkey = 1
=============================================================================
