--------------------------- MODULE MC_EdFormulas ---------------------------
(***************************************************************************)
(* C12 design check on a toy twisted Edwards curve (8L points, cofactor 8, *)
(* Q = 5 mod 8, the same shape as Ed25519): the three extended-coordinate  *)
(* formulas transcribed from ed25519_basic.py refine the affine Edwards    *)
(* law for ALL pairs of curve points - identity, equal, opposite and all   *)
(* 8 torsion points included - in ALL projective scalings from ZSET, and   *)
(* both ladders compute n-fold addition.  One initial state per (P1, z1);  *)
(* the invariants quantify over (P2, z2).                                  *)
(***************************************************************************)
EXTENDS Toy, TLC

CONSTANT ZSET          \* the projective scalings tried (subset of 1..Q-1)

C == ToyGroup
QQ == NToInt(C.Q)
PointsAt(y) == LET x == XRecover(C, y)
               IN IF OnCurve(C, <<x, y>>) THEN {<<x, y>>, <<FNeg(C, x), y>>} ELSE {}
CurvePoints == UNION {PointsAt(y) : y \in 0..(QQ - 1)}

VARIABLES P1, z1, pts
v == <<P1, z1, pts>>
(* two-stage fan-out: the initial states fix P1, the step picks z1, so that    *)
(* all TLC workers share the cases                                            *)
Init == pts = CurvePoints /\ P1 \in pts /\ z1 = 0
Next == z1 = 0 /\ z1' \in ZSET /\ UNCHANGED <<P1, pts>>
Spec == Init /\ [][Next]_v
Ready == z1 # 0

R1 == Scale(C, P1, z1)
Projects(r, P) == ValidExt(C, r) /\ ToAffine(C, r) = P

AffineLawComplete == Ready =>   \* denominators never vanish, the sum is on the curve, the law is a group law with inverses
  \A P2 \in pts :
    LET t == FMul(C, C.d, FMul(C, FMul(C, P1[1], P2[1]), FMul(C, P1[2], P2[2])))
    IN /\ FAdd(C, F1, t) # F0 /\ FSub(C, F1, t) # F0
       /\ AffAdd(C, P1, P2) \in pts
       /\ AffAdd(C, P1, P2) = AffAdd(C, P2, P1)
       /\ AffAdd(C, P1, EdId) = P1 /\ AffAdd(C, P1, AffNeg(C, P1)) = EdId
AddUnifiedComplete == Ready =>
  \A P2 \in pts, z2 \in ZSET : Projects(AddExt3(C, R1, Scale(C, P2, z2)), AffAdd(C, P1, P2))
DoubleCorrect == Ready => Projects(DblExt(C, R1), AffAdd(C, P1, P1))
AddDedicatedCorrect == Ready =>
  \A P2 \in pts, z2 \in ZSET :
    ~Order124(C, AffAdd(C, P1, AffNeg(C, P2))) => Projects(AddExt4(C, R1, Scale(C, P2, z2)), AffAdd(C, P1, P2))
(* the dedicated formula really has exceptional cases: it is NOT complete     *)
DedicatedFailsSomewhere == Ready =>
  \A P2 \in pts : Order124(C, AffAdd(C, P1, AffNeg(C, P2))) => ~Projects(AddExt4(C, R1, Scale(C, P2, 1)), AffAdd(C, P1, P2))

(* ladders: for every point the slow ladder is n-fold addition for n < 8L;    *)
(* for points of order L the fast ladder is n-fold addition for 0 <= n < L    *)
(* and each of its dedicated additions meets the side condition               *)
RECURSIVE FastSideOK(_, _)
FastSideOK(P, n) ==
  IF n = 0 THEN TRUE
  ELSE /\ FastSideOK(P, n \div 2)
       /\ (n % 2 = 1) => ~Order124(C, AffAdd(C, AffMul(C, P, 2 * (n \div 2)), AffNeg(C, P)))
LL == NToInt(C.L)
SlowLadderCorrect == Ready => \A n \in 0..(8 * LL) : Projects(LadderSlow(C, R1, n), AffMul(C, P1, n))
FastLadderSafe ==
  (Ready /\ AffMul(C, P1, LL) = EdId /\ P1 # EdId) =>
     \A n \in 0..(LL - 1) : FastSideOK(P1, n) /\ Projects(LadderFast(C, R1, n), AffMul(C, P1, n))
AffMulIsNFold == Ready => \A n \in 0..(LL + 2) : AffMul(C, P1, n + 1) = AffAdd(C, AffMul(C, P1, n), P1)

ASSUME Cardinality(CurvePoints) = 8 * LL                               \* the curve has exactly 8L points
ASSUME NExpMod(C.d, (QQ - 1) \div 2, QQ) = QQ - 1                      \* d is a non-square
ASSUME NExpMod(QQ - 1, (QQ - 1) \div 2, QQ) = 1                        \* -1 is a square
ASSUME FSq(C, C.I) = QQ - 1                                            \* I = sqrt(-1)
ASSUME OnCurve(C, EdBase(C)) /\ AffMul(C, EdBase(C), LL) = EdId /\ EdBase(C) # EdId /\ ~NOdd(C.Bx)
ASSUME \A y \in 0..(QQ - 1) : LET x == XRecover(C, y) IN ~NOdd(x) /\ (PointsAt(y) # {} <=> \E xx \in 0..(QQ - 1) : OnCurve(C, <<xx, y>>))
=============================================================================
