------------------------------- MODULE MC_Big -------------------------------
(***************************************************************************)
(* The whole state machine at once, for random simulation (tlc -simulate): *)
(* up to MaxInst instances of all three classes over two parameter sets    *)
(* (the default one and one with another M), several passwords (two of one *)
(* scalar class), two identity pairs, every secret scalar, crash/restore   *)
(* under any class and parameter set, and an attacker who delivers any     *)
(* message seen on the wire, structured tamperings of it, and every        *)
(* element under every plausible side byte.  All invariants of Spake2 are  *)
(* evaluated on every state of every sampled behaviour.                    *)
(***************************************************************************)
EXTENDS Spake2, Toy

G == ToyGroup
MC_ParamSets == {DefaultParams, [DefaultParams EXCEPT !.M = GAdd(G, DefaultParams.M, GBase(G))]}
MC_Passwords == {PwOfClass(0, 0), PwOfClass(1, 0), PwOfClass(1, 1), PwOfClass(2, 0)}
MC_IdPairs == {<<<<97>>, <<98>>>>, <<<<98>>, <<97>>>>}
MC_ClassSet == Classes
MC_ScalarChoices(g) == AllScalars(g)
Elems == {GEnc(G, e) : e \in Subgroup(G)}
Tamperings(m) == LET b == Tail(m) IN {m, m \o <<0>>, <<m[1]>> \o b \o b, SubSeq(m, 1, Len(m) - 1), <<m[1]>>}
MC_Attacker(w, s) ==
  UNION {Tamperings(m) : m \in w}
  \cup {<<sb>> \o e : sb \in {65, 66, 83, 67}, e \in Elems}
  \cup {<<>>}
=============================================================================
