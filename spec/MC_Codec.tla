------------------------------ MODULE MC_Codec ------------------------------
(***************************************************************************)
(* C15 design check: for EVERY maxval in 0..MAXV (one initial state each)   *)
(* and EVERY n <= maxval: number_to_bytes is the big-endian encoding in     *)
(* exactly size_bytes(maxval) bytes, bytes_to_number inverts it,            *)
(* n = maxval+1 raises; size_bytes is the least k >= 1 with 256^k > maxval. *)
(* And the scalar codec of the toy group on every scalar.                   *)
(***************************************************************************)
EXTENDS Toy, TLC

CONSTANT MAXV
(* two-stage fan-out so that all TLC workers share the cases                   *)
NPART == 16
VARIABLES maxval, part
Init == maxval = 0 - 1 /\ part = 0
Next == \/ part = 0 /\ part' \in 1..NPART /\ UNCHANGED maxval
        \/ part > 0 /\ maxval = 0 - 1 /\ maxval' \in {m \in 0..MAXV : m % NPART = part - 1} /\ UNCHANGED part
Spec == Init /\ [][Next]_<<maxval, part>>
Ready == maxval >= 0

RECURSIVE P256(_)
P256(k) == IF k = 0 THEN 1 ELSE 256 * P256(k - 1)
RECURSIVE BEValue(_)
BEValue(b) == IF b = <<>> THEN 0 ELSE 256 * BEValue(SubSeq(b, 1, Len(b) - 1)) + b[Len(b)]
nbytes == SizeBytes(maxval)
Sizes == Ready =>
         /\ nbytes >= 1 /\ P256(nbytes) > maxval /\ (nbytes > 1 => P256(nbytes - 1) <= maxval)
         /\ SizeBits(maxval) >= 1 /\ Pow2(SizeBits(maxval)) > maxval
         /\ (maxval > 0 => Pow2(SizeBits(maxval) - 1) <= maxval)
Bijection == Ready =>
  /\ \A n \in 0..maxval :
       LET r == NumberToBytes(n, maxval)
       IN /\ r.ok /\ Len(r.v) = nbytes /\ IsBytes(r.v)
          /\ BEValue(r.v) = n /\ BytesToNumber(r.v) = n
          /\ NFromBytesLE(NToBytesLE(n, nbytes)) = n /\ NToBytesLE(n, nbytes) = Reverse(r.v)
  /\ ~NumberToBytes(maxval + 1, maxval).ok
  /\ \A n1, n2 \in 0..(IF maxval < 64 THEN maxval ELSE 64) :
       n1 # n2 => NumberToBytes(n1, maxval).v # NumberToBytes(n2, maxval).v
G == ToyGroup
ASSUME \A k \in AllScalars(G) :
         LET e == GScalarEnc(G, k)
         IN e.ok /\ Len(e.v) = GSSize(G) /\ GScalarDec(G, e.v).ok /\ GScalarDec(G, e.v).e = k
ASSUME \A k1, k2 \in AllScalars(G) : k1 # k2 => GScalarEnc(G, k1).v # GScalarEnc(G, k2).v
ASSUME \A e \in Subgroup(G) : Len(GEnc(G, e)) = GESize(G)
ASSUME \A e1, e2 \in Subgroup(G) : e1 # e2 => GEnc(G, e1) # GEnc(G, e2)
=============================================================================
