----------------------------- MODULE TracePure -----------------------------
(***************************************************************************)
(* Verdicts for events that record calls of the pure functions of the      *)
(* library: element/scalar codecs, group operations, derivations, the      *)
(* sampler, the transcript hash, the Edwards formulas, the constants.      *)
(* High-volume domains are recorded as TABLE events: the event names a     *)
(* domain, the specification enumerates the same domain and compares the   *)
(* whole result table.                                                     *)
(***************************************************************************)
EXTENDS Spake2Core, Json, IOUtils

PT == JsonDeserialize(IOEnv.TRACE_FILE)
PHNum(h) == NFromBytes(HexToBytes(h))
PGroupOf(r) ==
  IF r.kind = "int"
  THEN [kind |-> "int", p |-> PHNum(r.p), q |-> PHNum(r.q), g |-> PHNum(r.g)]
  ELSE MkCurve(PHNum(r.Q), PHNum(r.d), PHNum(r.L), PHNum(r.By))
GroupTable == [n \in DOMAIN PT.groups |-> PGroupOf(PT.groups[n])]

PGood == [ok |-> TRUE, why |-> "ok", exp |-> ""]
PBad(why, exp) == [ok |-> FALSE, why |-> why, exp |-> exp]

(* ---- domains of byte strings --------------------------------------------- *)
RECURSIVE AllStrings(_)
AllStrings(n) == IF n = 0 THEN <<<<>>>>
                 ELSE LET r == AllStrings(n - 1)
                      IN [k \in 1..(Len(r) * 256) |-> <<(k - 1) \div Len(r)>> \o r[((k - 1) % Len(r)) + 1]]
(* Edwards: y in [lo, hi), sign 0/1, as 32-byte little-endian strings           *)
EdYString(y, sign) == LET b == NToBytesLE(NLit(y), 32) IN [b EXCEPT ![32] = b[32] + 128 * sign]
(* strings of length n >= 1 whose first byte is in [lo, hi)                      *)
LenSlice(n, lo, hi) ==
  LET r == AllStrings(n - 1)
  IN [k \in 1..((hi - lo) * Len(r)) |-> <<lo + (k - 1) \div Len(r)>> \o r[((k - 1) % Len(r)) + 1]]
DomainOf(d) ==
  IF d.dom = "len" THEN (IF d.n = 0 THEN AllStrings(0) ELSE LenSlice(d.n, d.lo, d.hi))
  ELSE IF d.dom = "edy" THEN [k \in 1..(2 * (d.hi - d.lo)) |-> EdYString(d.lo + (k - 1) \div 2, (k - 1) % 2)]
  ELSE [k \in 1..Len(d.bs) |-> HexToBytes(d.bs[k])]

(* ---- C05: bytes_to_element ---------------------------------------------- *)
VDecTable(ev) ==
  LET g   == GroupTable[ev.grp]
      dom == DomainOf(ev.d)
      res == [k \in 1..Len(dom) |-> GDec(g, dom[k])]
      badv == {k \in 1..Len(dom) : res[k].ok # (ev.oks[k] = 1)}
      acc == SelectSeq([k \in 1..Len(dom) |-> k], LAMBDA k : res[k].ok)
      bade == {j \in 1..Len(acc) : j > Len(ev.encs) \/ HexToBytes(ev.encs[j]) # dom[acc[j]]}
  IN IF Len(ev.oks) # Len(dom) THEN PBad("harness: table size", "")
     ELSE IF badv # {}
          THEN LET k == CHOOSE k \in badv : \A k2 \in badv : k <= k2
               IN PBad("C05: bytes_to_element accepts/rejects " \o BytesToHex(dom[k]),
                       IF res[k].ok THEN "accept" ELSE "reject")
     ELSE IF badv = {} /\ bade # {} THEN PBad("C05: accepted string does not re-encode to itself", "")
     ELSE PGood

VDec(ev) ==
  LET g == GroupTable[ev.grp]
      b == HexToBytes(ev.b)
      r == GDec(g, b)
  IN IF r.ok # ev.out.ok THEN PBad("C05: bytes_to_element accepts/rejects", IF r.ok THEN "accept" ELSE "reject")
     ELSE IF r.ok /\ HexToBytes(ev.out.enc) # b THEN PBad("C05: accepted string does not re-encode to itself", ev.b)
     ELSE PGood

(* ---- C13: the element API ------------------------------------------------- *)
(* elements are named by their discrete logarithm k: e_k = k.Base               *)
Idx(g, k) == GMul(g, GBase(g), NLit(k))
ElemTable(g) == [k \in 1..NToInt(GOrder(g)) |-> Idx(g, k - 1)]   \* tab[k+1] = e_k
ClsOK(g, e, cls) == IF IsEd(g) THEN cls = (IF e = EdId THEN "_ZeroElement" ELSE "Element")
                    ELSE cls = "_Element"
(* a result record of the harness: enc, cls, negok, neg (= result.scalarmult(-1)) *)
ResultOK(g, e, r) ==
  /\ HexToBytes(r.enc) = GEnc(g, e)
  /\ ClsOK(g, e, r.cls)
  /\ r.negok = 1 /\ HexToBytes(r.neg) = GEnc(g, GNeg(g, e))
ShowElem(g, e) == BytesToHex(GEnc(g, e))
FirstBad(S) == CHOOSE k \in S : \A k2 \in S : k <= k2

VAddRow(ev) ==
  LET g   == GroupTable[ev.grp]
      tab == ElemTable(g)
      n   == Len(tab)
      bad == {j \in 1..n : ~ResultOK(g, GAdd(g, tab[ev.a + 1], tab[j]), ev.outs[j])}
  IN IF Len(ev.outs) # n THEN PBad("harness: row size", "")
     ELSE IF bad = {} THEN PGood
     ELSE LET j == FirstBad(bad) e == GAdd(g, tab[ev.a + 1], tab[j])
          IN PBad("C13: add: e_" \o ToString(ev.a) \o " + e_" \o ToString(j - 1) \o " (operands via " \o ev.how \o ")",
                  ToJson([enc |-> ShowElem(g, e), neg |-> ShowElem(g, GNeg(g, e)),
                          cls |-> IF IsEd(g) THEN (IF e = EdId THEN "_ZeroElement" ELSE "Element") ELSE "_Element"]))

VMulRow(ev) ==
  LET g   == GroupTable[ev.grp]
      q   == NToInt(GOrder(g))
      e   == Idx(g, ev.a)
      exp(j) == GMul(g, e, NLit((ev.lo + j - 1) % q))
      bad == {j \in 1..Len(ev.outs) : ~ResultOK(g, exp(j), ev.outs[j])}
  IN IF Len(ev.outs) # ev.hi - ev.lo + 1 THEN PBad("harness: row size", "")
     ELSE IF bad = {} THEN PGood
     ELSE LET j == FirstBad(bad)
          IN PBad("C13: scalarmult: e_" \o ToString(ev.a) \o " * " \o ToString(ev.lo + j - 1) \o " (operand via " \o ev.how \o ")",
                  ToJson([enc |-> ShowElem(g, exp(j)), neg |-> ShowElem(g, GNeg(g, exp(j)))]))

VEqRow(ev) ==
  LET n   == Len(ev.eq)
      bad == {j \in 1..n : (ev.eq[j] = 1) # (j - 1 = ev.a) \/ (ev.ne[j] = 1) # (j - 1 # ev.a)}
  IN IF bad = {} THEN PGood
     ELSE PBad("C13: == / != is not value equality: e_" \o ToString(ev.a) \o " vs e_" \o ToString(FirstBad(bad) - 1), "")

VNegRow(ev) ==
  LET g   == GroupTable[ev.grp]
      tab == ElemTable(g)
      n   == Len(tab)
      badn == {j \in 1..n : ~ResultOK(g, GNeg(g, tab[j]), ev.negs[j])}
      bads == {j \in 1..n : ~ResultOK(g, GAdd(g, tab[ev.a + 1], GNeg(g, tab[j])), ev.subs[j])}
  IN IF badn # {} THEN PBad("C13: negate: -e_" \o ToString(FirstBad(badn) - 1), ShowElem(g, GNeg(g, tab[FirstBad(badn)])))
     ELSE IF bads # {} THEN PBad("C13: subtract: e_" \o ToString(ev.a) \o " - e_" \o ToString(FirstBad(bads) - 1), "")
     ELSE PGood

(* full size: operands named by scalars (hex), scalars as [neg, mag]            *)
ScalarOf(g, s) == LET qq == GOrder(g)  mg == NMod(PHNum(s.mag), qq)
                  IN IF s.neg = 1 THEN NMod(NSub(qq, mg), qq) ELSE mg
VOp(ev) ==
  LET g  == GroupTable[ev.grp]
      ea == GMul(g, GBase(g), PHNum(ev.ka))
      e  == IF ev.fn = "add" THEN GAdd(g, ea, GMul(g, GBase(g), PHNum(ev.kb)))
            ELSE IF ev.fn = "sub" THEN GAdd(g, ea, GNeg(g, GMul(g, GBase(g), PHNum(ev.kb))))
            ELSE IF ev.fn = "neg" THEN GNeg(g, ea)
            ELSE GMul(g, ea, ScalarOf(g, ev.n))
  IN IF ev.fn = "eq"
     THEN IF (ev.out.eq = 1) = (NMod(PHNum(ev.ka), GOrder(g)) = NMod(PHNum(ev.kb), GOrder(g))) /\ ev.out.ne = 1 - ev.out.eq
          THEN PGood ELSE PBad("C13: == / != is not value equality", "")
     ELSE IF ResultOK(g, e, ev.out) THEN PGood
     ELSE PBad("C13: " \o ev.fn \o " (operands via " \o ev.how \o ")",
               ToJson([enc |-> ShowElem(g, e), neg |-> ShowElem(g, GNeg(g, e))]))

(* ---- C12: the extended-coordinate formulas ----------------------------- *)
(* toy table: coordinates are small JSON integers                              *)
ExtOf(t) == <<NLit(t[1]), NLit(t[2]), NLit(t[3]), NLit(t[4])>>
Formula(c, fn, r1, r2) == IF fn = "add3" THEN AddExt3(c, r1, r2)
                          ELSE IF fn = "add4" THEN AddExt4(c, r1, r2)
                          ELSE DblExt(c, r1)
(* the expected AFFINE result and whether the formula is obliged to give it     *)
EdExpect(c, fn, A1, A2) == IF fn = "dbl" THEN AffAdd(c, A1, A1) ELSE AffAdd(c, A1, A2)
EdObliged(c, fn, A1, A2) == fn # "add4" \/ ~Order124(c, AffAdd(c, A1, AffNeg(c, A2)))
EdCaseOK(c, fn, r1, r2, out) ==
  LET A1 == ToAffine(c, r1)
      A2 == ToAffine(c, r2)
  IN EdObliged(c, fn, A1, A2) => (ValidExt(c, out) /\ ToAffine(c, out) = EdExpect(c, fn, A1, A2))
VEdTab(ev) ==
  LET c  == GroupTable[ev.grp]
      r1 == ExtOf(ev.r1)
      n  == Len(ev.r2s)
      bad == {j \in 1..n : ~EdCaseOK(c, ev.fn, r1, ExtOf(ev.r2s[j]), ExtOf(ev.outs[j]))}
      pre == {j \in 1..n : ~(ValidExt(c, ExtOf(ev.r2s[j])) /\ OnCurve(c, ToAffine(c, ExtOf(ev.r2s[j]))))}
  IN IF ~(ValidExt(c, r1) /\ OnCurve(c, ToAffine(c, r1))) \/ pre # {} THEN PBad("harness: operand is not a curve point", "")
     ELSE IF Len(ev.outs) # n THEN PBad("harness: table size", "")
     ELSE IF bad = {} THEN PGood
     ELSE LET j == FirstBad(bad)
          IN PBad("C12: " \o ev.fn \o " does not compute the Edwards sum for operand pair " \o ToString(j),
                  ToJson([r1 |-> ev.r1, r2 |-> ev.r2s[j], got |-> ev.outs[j]]))
HExt(t) == <<PHNum(t[1]), PHNum(t[2]), PHNum(t[3]), PHNum(t[4])>>
VEdOp(ev) ==
  LET c  == GroupTable[ev.grp]
      r1 == HExt(ev.r1)
      r2 == HExt(ev.r2)
  IN IF ~(ValidExt(c, r1) /\ OnCurve(c, ToAffine(c, r1)) /\ ValidExt(c, r2) /\ OnCurve(c, ToAffine(c, r2)))
     THEN PBad("harness: operand is not a curve point", "")
     ELSE IF EdCaseOK(c, ev.fn, r1, r2, HExt(ev.out)) THEN PGood
     ELSE PBad("C12: " \o ev.fn \o " does not compute the Edwards sum (" \o ev.note \o ")", "")

PureVerdict(ev) ==
  CASE ev.op = "g_dec_table" -> VDecTable(ev)
    [] ev.op = "g_dec"       -> VDec(ev)
    [] ev.op = "g_add_row"   -> VAddRow(ev)
    [] ev.op = "g_mul_row"   -> VMulRow(ev)
    [] ev.op = "g_eq_row"    -> VEqRow(ev)
    [] ev.op = "g_neg_row"   -> VNegRow(ev)
    [] ev.op = "g_op"        -> VOp(ev)
    [] ev.op = "ed_tab"      -> VEdTab(ev)
    [] ev.op = "ed_op"       -> VEdOp(ev)
    [] OTHER                 -> PBad("harness: unknown event " \o ev.op, "")
=============================================================================
