----------------------------- MODULE TracePure -----------------------------
(***************************************************************************)
(* Verdicts for events that record calls of the pure functions of the      *)
(* library: element/scalar codecs, group operations, derivations, the      *)
(* sampler, the transcript hash, the Edwards formulas, the constants.      *)
(* High-volume domains are recorded as TABLE events: the event names a     *)
(* domain, the specification enumerates the same domain and compares the   *)
(* whole result table.                                                     *)
(***************************************************************************)
EXTENDS Spake2Core, Json, IOUtils

PT == JsonDeserialize(IOEnv.TRACE_FILE)
PHNum(h) == NFromBytes(HexToBytes(h))
PGroupOf(r) ==
  IF r.kind = "int"
  THEN [kind |-> "int", p |-> PHNum(r.p), q |-> PHNum(r.q), g |-> PHNum(r.g)]
  ELSE MkCurve(PHNum(r.Q), PHNum(r.d), PHNum(r.L), PHNum(r.By))
GroupTable == [n \in DOMAIN PT.groups |-> PGroupOf(PT.groups[n])]

PGood == [ok |-> TRUE, why |-> "ok", exp |-> ""]
PBad(why, exp) == [ok |-> FALSE, why |-> why, exp |-> exp]

(* ---- domains of byte strings --------------------------------------------- *)
RECURSIVE AllStrings(_)
AllStrings(n) == IF n = 0 THEN <<<<>>>>
                 ELSE LET r == AllStrings(n - 1)
                      IN [k \in 1..(Len(r) * 256) |-> <<(k - 1) \div Len(r)>> \o r[((k - 1) % Len(r)) + 1]]
(* Edwards: y in [lo, hi), sign 0/1, as 32-byte little-endian strings           *)
EdYString(y, sign) == LET b == NToBytesLE(NLit(y), 32) IN [b EXCEPT ![32] = b[32] + 128 * sign]
(* strings of length n >= 1 whose first byte is in [lo, hi)                      *)
LenSlice(n, lo, hi) ==
  LET r == AllStrings(n - 1)
  IN [k \in 1..((hi - lo) * Len(r)) |-> <<lo + (k - 1) \div Len(r)>> \o r[((k - 1) % Len(r)) + 1]]
DomainOf(d) ==
  IF d.dom = "len" THEN (IF d.n = 0 THEN AllStrings(0) ELSE LenSlice(d.n, d.lo, d.hi))
  ELSE IF d.dom = "edy" THEN [k \in 1..(2 * (d.hi - d.lo)) |-> EdYString(d.lo + (k - 1) \div 2, (k - 1) % 2)]
  ELSE [k \in 1..Len(d.bs) |-> HexToBytes(d.bs[k])]

(* ---- C05: bytes_to_element ---------------------------------------------- *)
VDecTable(ev) ==
  LET g   == GroupTable[ev.grp]
      dom == DomainOf(ev.d)
      res == [k \in 1..Len(dom) |-> GDec(g, dom[k])]
      badv == {k \in 1..Len(dom) : res[k].ok # (ev.oks[k] = 1)}
      acc == SelectSeq([k \in 1..Len(dom) |-> k], LAMBDA k : res[k].ok)
      bade == {j \in 1..Len(acc) : j > Len(ev.encs) \/ HexToBytes(ev.encs[j]) # dom[acc[j]]}
  IN IF Len(ev.oks) # Len(dom) THEN PBad("harness: table size", "")
     ELSE IF badv # {}
          THEN LET k == CHOOSE k \in badv : \A k2 \in badv : k <= k2
               IN PBad("C05: bytes_to_element accepts/rejects " \o BytesToHex(dom[k]),
                       IF res[k].ok THEN "accept" ELSE "reject")
     ELSE IF badv = {} /\ bade # {} THEN PBad("C05: accepted string does not re-encode to itself", "")
     ELSE PGood

VDec(ev) ==
  LET g == GroupTable[ev.grp]
      b == HexToBytes(ev.b)
      r == GDec(g, b)
  IN IF r.ok # ev.out.ok THEN PBad("C05: bytes_to_element accepts/rejects", IF r.ok THEN "accept" ELSE "reject")
     ELSE IF r.ok /\ HexToBytes(ev.out.enc) # b THEN PBad("C05: accepted string does not re-encode to itself", ev.b)
     ELSE PGood

PureVerdict(ev) ==
  CASE ev.op = "g_dec_table" -> VDecTable(ev)
    [] ev.op = "g_dec"       -> VDec(ev)
    [] OTHER                 -> PBad("harness: unknown event " \o ev.op, "")
=============================================================================
