----------------------------- MODULE TracePure -----------------------------
(***************************************************************************)
(* Verdicts for events that record calls of the pure functions of the      *)
(* library: element/scalar codecs, group operations, derivations, the      *)
(* sampler, the transcript hash, the Edwards formulas, the constants.      *)
(* High-volume domains are recorded as TABLE events: the event names a     *)
(* domain, the specification enumerates the same domain and compares the   *)
(* whole result table.                                                     *)
(***************************************************************************)
EXTENDS Spake2Core, Primes, Json, IOUtils

PT == JsonDeserialize(IOEnv.TRACE_FILE)
PHNum(h) == NFromBytes(HexToBytes(h))
PGroupOf(r) ==
  IF r.kind = "int"
  THEN [kind |-> "int", p |-> PHNum(r.p), q |-> PHNum(r.q), g |-> PHNum(r.g)]
  ELSE MkCurve(PHNum(r.Q), PHNum(r.d), PHNum(r.L), PHNum(r.By))
GroupTable == [n \in DOMAIN PT.groups |-> PGroupOf(PT.groups[n])]

PGood == [ok |-> TRUE, why |-> "ok", exp |-> ""]
PBad(why, exp) == [ok |-> FALSE, why |-> why, exp |-> exp]

(* ---- domains of byte strings --------------------------------------------- *)
RECURSIVE AllStrings(_)
AllStrings(n) == IF n = 0 THEN <<<<>>>>
                 ELSE LET r == AllStrings(n - 1)
                      IN [k \in 1..(Len(r) * 256) |-> <<(k - 1) \div Len(r)>> \o r[((k - 1) % Len(r)) + 1]]
(* Edwards: y in [lo, hi), sign 0/1, as 32-byte little-endian strings           *)
EdYString(y, sign) == LET b == NToBytesLE(NLit(y), 32) IN [b EXCEPT ![32] = b[32] + 128 * sign]
(* strings of length n >= 1 whose first byte is in [lo, hi)                      *)
LenSlice(n, lo, hi) ==
  LET r == AllStrings(n - 1)
  IN [k \in 1..((hi - lo) * Len(r)) |-> <<lo + (k - 1) \div Len(r)>> \o r[((k - 1) % Len(r)) + 1]]
DomainOf(d) ==
  IF d.dom = "len" THEN (IF d.n = 0 THEN AllStrings(0) ELSE LenSlice(d.n, d.lo, d.hi))
  ELSE IF d.dom = "edy" THEN [k \in 1..(2 * (d.hi - d.lo)) |-> EdYString(d.lo + (k - 1) \div 2, (k - 1) % 2)]
  ELSE [k \in 1..Len(d.bs) |-> HexToBytes(d.bs[k])]

(* ---- C05: bytes_to_element ---------------------------------------------- *)
VDecTable(ev) ==
  LET g   == GroupTable[ev.grp]
      dom == DomainOf(ev.d)
      res == [k \in 1..Len(dom) |-> GDec(g, dom[k])]
      badv == {k \in 1..Len(dom) : res[k].ok # (ev.oks[k] = 1)}
      acc == SelectSeq([k \in 1..Len(dom) |-> k], LAMBDA k : res[k].ok)
      bade == {j \in 1..Len(acc) : j > Len(ev.encs) \/ HexToBytes(ev.encs[j]) # dom[acc[j]]}
  IN IF Len(ev.oks) # Len(dom) THEN PBad("harness: table size", "")
     ELSE IF badv # {}
          THEN LET k == CHOOSE k \in badv : \A k2 \in badv : k <= k2
               IN PBad("C05: bytes_to_element accepts/rejects " \o BytesToHex(dom[k]),
                       IF res[k].ok THEN "accept" ELSE "reject")
     ELSE IF badv = {} /\ bade # {} THEN PBad("C05: accepted string does not re-encode to itself", "")
     ELSE PGood

VDec(ev) ==
  LET g == GroupTable[ev.grp]
      b == HexToBytes(ev.b)
      r == GDec(g, b)
  IN IF r.ok # ev.out.ok THEN PBad("C05: bytes_to_element accepts/rejects", IF r.ok THEN "accept" ELSE "reject")
     ELSE IF r.ok /\ HexToBytes(ev.out.enc) # b THEN PBad("C05: accepted string does not re-encode to itself", ev.b)
     ELSE PGood

(* ---- C13: the element API ------------------------------------------------- *)
(* elements are named by their discrete logarithm k: e_k = k.Base               *)
Idx(g, k) == GMul(g, GBase(g), NLit(k))
ElemTable(g) == [k \in 1..NToInt(GOrder(g)) |-> Idx(g, k - 1)]   \* tab[k+1] = e_k
(* The class NAME of a result is an implementation detail and is not checked;  *)
(* what the property demands of a result is behavioural: it encodes, and it     *)
(* supports the same operations - in particular a negative scalar (negok/neg).  *)
ClsOK(g, e, cls) == TRUE
(* a result record of the harness: enc, cls, negok, neg (= result.scalarmult(-1)) *)
ResultOK(g, e, r) ==
  /\ HexToBytes(r.enc) = GEnc(g, e)
  /\ ClsOK(g, e, r.cls)
  /\ r.negok = 1 /\ HexToBytes(r.neg) = GEnc(g, GNeg(g, e))
ShowElem(g, e) == BytesToHex(GEnc(g, e))
FirstBad(S) == CHOOSE k \in S : \A k2 \in S : k <= k2

VAddRow(ev) ==
  LET g   == GroupTable[ev.grp]
      tab == ElemTable(g)
      n   == Len(tab)
      bad == {j \in 1..n : ~ResultOK(g, GAdd(g, tab[ev.a + 1], tab[j]), ev.outs[j])}
  IN IF Len(ev.outs) # n THEN PBad("harness: row size", "")
     ELSE IF bad = {} THEN PGood
     ELSE LET j == FirstBad(bad) e == GAdd(g, tab[ev.a + 1], tab[j])
          IN PBad("C13: add: e_" \o ToString(ev.a) \o " + e_" \o ToString(j - 1) \o " (operands via " \o ev.how \o ")",
                  ToJson([enc |-> ShowElem(g, e), neg |-> ShowElem(g, GNeg(g, e)),
                          cls |-> IF IsEd(g) THEN (IF e = EdId THEN "_ZeroElement" ELSE "Element") ELSE "_Element"]))

VMulRow(ev) ==
  LET g   == GroupTable[ev.grp]
      q   == NToInt(GOrder(g))
      e   == Idx(g, ev.a)
      exp(j) == GMul(g, e, NLit((ev.lo + j - 1) % q))
      bad == {j \in 1..Len(ev.outs) : ~ResultOK(g, exp(j), ev.outs[j])}
  IN IF Len(ev.outs) # ev.hi - ev.lo + 1 THEN PBad("harness: row size", "")
     ELSE IF bad = {} THEN PGood
     ELSE LET j == FirstBad(bad)
          IN PBad("C13: scalarmult: e_" \o ToString(ev.a) \o " * " \o ToString(ev.lo + j - 1) \o " (operand via " \o ev.how \o ")",
                  ToJson([enc |-> ShowElem(g, exp(j)), neg |-> ShowElem(g, GNeg(g, exp(j)))]))

VEqRow(ev) ==
  LET n   == Len(ev.eq)
      bad == {j \in 1..n : (ev.eq[j] = 1) # (j - 1 = ev.a) \/ (ev.ne[j] = 1) # (j - 1 # ev.a)}
  IN IF bad = {} THEN PGood
     ELSE PBad("C13: == / != is not value equality: e_" \o ToString(ev.a) \o " vs e_" \o ToString(FirstBad(bad) - 1), "")

VNegRow(ev) ==
  LET g   == GroupTable[ev.grp]
      tab == ElemTable(g)
      n   == Len(tab)
      badn == {j \in 1..n : ~ResultOK(g, GNeg(g, tab[j]), ev.negs[j])}
      bads == {j \in 1..n : ~ResultOK(g, GAdd(g, tab[ev.a + 1], GNeg(g, tab[j])), ev.subs[j])}
  IN IF badn # {} THEN PBad("C13: negate: -e_" \o ToString(FirstBad(badn) - 1), ShowElem(g, GNeg(g, tab[FirstBad(badn)])))
     ELSE IF bads # {} THEN PBad("C13: subtract: e_" \o ToString(ev.a) \o " - e_" \o ToString(FirstBad(bads) - 1), "")
     ELSE PGood

(* full size: operands named by scalars (hex), scalars as [neg, mag]            *)
ScalarOf(g, s) == LET qq == GOrder(g)  mg == NMod(PHNum(s.mag), qq)
                  IN IF s.neg = 1 THEN NMod(NSub(qq, mg), qq) ELSE mg
VOp(ev) ==
  LET g  == GroupTable[ev.grp]
      ea == GMul(g, GBase(g), PHNum(ev.ka))
      e  == IF ev.fn = "add" THEN GAdd(g, ea, GMul(g, GBase(g), PHNum(ev.kb)))
            ELSE IF ev.fn = "sub" THEN GAdd(g, ea, GNeg(g, GMul(g, GBase(g), PHNum(ev.kb))))
            ELSE IF ev.fn = "neg" THEN GNeg(g, ea)
            ELSE GMul(g, ea, ScalarOf(g, ev.n))
  IN IF ev.fn = "eq"
     THEN IF (ev.out.eq = 1) = (NMod(PHNum(ev.ka), GOrder(g)) = NMod(PHNum(ev.kb), GOrder(g))) /\ ev.out.ne = 1 - ev.out.eq
          THEN PGood ELSE PBad("C13: == / != is not value equality", "")
     ELSE IF ResultOK(g, e, ev.out) THEN PGood
     ELSE PBad("C13: " \o ev.fn \o " (operands via " \o ev.how \o ")",
               ToJson([enc |-> ShowElem(g, e), neg |-> ShowElem(g, GNeg(g, e))]))

(* ---- C12: the extended-coordinate formulas ----------------------------- *)
(* toy table: coordinates are small JSON integers                              *)
ExtOf(t) == <<NLit(t[1]), NLit(t[2]), NLit(t[3]), NLit(t[4])>>
Formula(c, fn, r1, r2) == IF fn = "add3" THEN AddExt3(c, r1, r2)
                          ELSE IF fn = "add4" THEN AddExt4(c, r1, r2)
                          ELSE DblExt(c, r1)
(* the expected AFFINE result and whether the formula is obliged to give it     *)
EdExpect(c, fn, A1, A2) == IF fn = "dbl" THEN AffAdd(c, A1, A1) ELSE AffAdd(c, A1, A2)
EdObliged(c, fn, A1, A2) == fn # "add4" \/ ~Order124(c, AffAdd(c, A1, AffNeg(c, A2)))
EdCaseOK(c, fn, r1, r2, out) ==
  LET A1 == ToAffine(c, r1)
      A2 == ToAffine(c, r2)
  IN EdObliged(c, fn, A1, A2) => (ValidExt(c, out) /\ ToAffine(c, out) = EdExpect(c, fn, A1, A2))
VEdTab(ev) ==
  LET c  == GroupTable[ev.grp]
      r1 == ExtOf(ev.r1)
      n  == Len(ev.r2s)
      bad == {j \in 1..n : ~EdCaseOK(c, ev.fn, r1, ExtOf(ev.r2s[j]), ExtOf(ev.outs[j]))}
      pre == {j \in 1..n : ~(ValidExt(c, ExtOf(ev.r2s[j])) /\ OnCurve(c, ToAffine(c, ExtOf(ev.r2s[j]))))}
  IN IF ~(ValidExt(c, r1) /\ OnCurve(c, ToAffine(c, r1))) \/ pre # {} THEN PBad("harness: operand is not a curve point", "")
     ELSE IF Len(ev.outs) # n THEN PBad("harness: table size", "")
     ELSE IF bad = {} THEN PGood
     ELSE LET j == FirstBad(bad)
          IN PBad("C12: " \o ev.fn \o " does not compute the Edwards sum for operand pair " \o ToString(j),
                  ToJson([r1 |-> ev.r1, r2 |-> ev.r2s[j], got |-> ev.outs[j]]))
HExt(t) == <<PHNum(t[1]), PHNum(t[2]), PHNum(t[3]), PHNum(t[4])>>
VEdOp(ev) ==
  LET c  == GroupTable[ev.grp]
      r1 == HExt(ev.r1)
      r2 == HExt(ev.r2)
  IN IF ~(ValidExt(c, r1) /\ OnCurve(c, ToAffine(c, r1)) /\ ValidExt(c, r2) /\ OnCurve(c, ToAffine(c, r2)))
     THEN PBad("harness: operand is not a curve point", "")
     ELSE IF EdCaseOK(c, ev.fn, r1, r2, HExt(ev.out)) THEN PGood
     ELSE PBad("C12: " \o ev.fn \o " does not compute the Edwards sum (" \o ev.note \o ")", "")

(* ---- C11: the sampler ----------------------------------------------------- *)
PEntLog(ev) == [i \in 1..Len(ev.ent) |-> [req |-> ev.ent[i].req, got |-> HexToBytes(ev.ent[i].got)]]
VRR(ev) ==
  LET r == Randrange(PHNum(ev.start), PHNum(ev.stop), PEntLog(ev))
  IN IF ~r.ok THEN PBad("C11: unbiased_randrange: " \o r.why, "")
     ELSE IF ev.out.t # "val" \/ PHNum(ev.out.v) # r.v THEN PBad("C11: unbiased_randrange result", BytesToHex(NToBytes(r.v, Len(HexToBytes(ev.stop)))))
     ELSE PGood
(* every first draw r in [lo,hi) for a small range [start, start+width); a     *)
(* rejected first draw is followed by an all-zero draw                          *)
VRRTable(ev) ==
  LET w   == NLit(ev.width)
      case(r) ==
        LET draw == NToBytes(NLit(r), ev.nb)
            acc  == NLt(Candidate(draw, w), w)
            log  == IF acc THEN << [req |-> ev.nb, got |-> draw] >>
                    ELSE << [req |-> ev.nb, got |-> draw], [req |-> ev.nb, got |-> Zeros(ev.nb)] >>
            rr   == Randrange(NLit(ev.start), NLit(ev.start + ev.width), log)
            k    == r - ev.lo + 1
        IN rr.ok /\ NToInt(rr.v) = ev.res[k] /\ ev.nreq[k] = ev.nb * Len(log)       \* bytes consumed
                 /\ ev.res[k] >= ev.start /\ ev.res[k] < ev.start + ev.width
      bad == {r \in ev.lo..(ev.hi - 1) : ~case(r)}
  IN IF Len(ev.res) # ev.hi - ev.lo THEN PBad("harness: table size", "")
     ELSE IF ev.nb # SizeBytes(w) THEN PBad("C11: a draw is not size_bytes(width) bytes", ToString(SizeBytes(w)))
     ELSE IF bad = {} THEN PGood
     ELSE PBad("C11: unbiased_randrange(" \o ToString(ev.start) \o ", " \o ToString(ev.start + ev.width)
               \o ") on first draw " \o ToString(FirstBad(bad)), "")

(* group.random_scalar(entropy_f) called directly: the scalar as a function of  *)
(* the entropy log (Ed25519: 64 bytes mod L; integer groups: the sampler on    *)
(* [0, q))                                                                      *)
RandomScalarOf(g, log) ==
  IF g.kind = "int" THEN Randrange(NLit(0), g.q, log) ELSE EdRandomScalar(g.L, log)
VRS(ev) ==
  LET g == GroupTable[ev.grp]
      r == RandomScalarOf(g, PEntLog(ev))
  IN IF ~r.ok THEN PBad("C11: random_scalar: " \o r.why, "")
     ELSE IF ev.out.t # "val" \/ PHNum(ev.out.v) # r.v \/ ~NLt(PHNum(ev.out.v), GOrder(g))
          THEN PBad("C11: random_scalar is not the specified function of the entropy bytes", BytesToHex(NToBytes(r.v, 1)))
     ELSE PGood
(* many streams of one draw each: a stream whose only draw is rejected by the   *)
(* integer sampler continues with zeros (0 is accepted)                         *)
VRSTable(ev) ==
  LET g == GroupTable[ev.grp]
      case(k) ==
        LET st  == HexToBytes(ev.ents[k])
            r1  == RandomScalarOf(g, << [req |-> Len(st), got |-> st] >>)
            r   == IF r1.ok \/ g.kind # "int" THEN r1
                   ELSE RandomScalarOf(g, << [req |-> Len(st), got |-> st], [req |-> Len(st), got |-> Zeros(Len(st))] >>)
            n   == IF r1.ok \/ g.kind # "int" THEN Len(st) ELSE 2 * Len(st)
        IN r.ok /\ ev.res[k] \notin {"neg", "loop", "err"} /\ PHNum(ev.res[k]) = r.v /\ ev.used[k] = n
      bad == {k \in 1..Len(ev.ents) : ~case(k)}
  IN IF Len(ev.res) # Len(ev.ents) \/ Len(ev.used) # Len(ev.ents) THEN PBad("harness: table size", "")
     ELSE IF bad = {} THEN PGood
     ELSE PBad("C11: random_scalar is not the specified function of the entropy bytes " \o ev.ents[FirstBad(bad)], "")

(* ---- C14: derivations ------------------------------------------------------ *)
VPw2s(ev) ==
  LET g == GroupTable[ev.grp]
      w == GPwScalar(g, HexToBytes(ev.pw))
  IN IF ev.out.t = "val" /\ PHNum(ev.out.v) = w /\ NLt(w, GOrder(g)) THEN PGood
     ELSE PBad("C14: password_to_scalar", BytesToHex(NToBytes(w, GSSize(g))))
VArb(ev) ==
  LET g    == GroupTable[ev.grp]
      seed == HexToBytes(ev.seed)
      degenerate == ~IsEd(g) /\ LET h == IG_ArbH(g, seed) IN NIsZero(h) \/ IG_ArbFromH(g, h) = NLit(1)
      e    == GArbElem(g, seed)
  IN IF degenerate
     THEN \* the published construction itself yields 0 or the identity here (finding F7).  If the code nevertheless
          \* returns a non-identity member of the subgroup the finding is not reproduced; the property does not say which.
          IF ev.out.t = "elem" /\ GDec(g, HexToBytes(ev.out.enc)).ok /\ GDec(g, HexToBytes(ev.out.enc)).e # GIdentity(g)
          THEN PGood
          ELSE PBad("F7: arbitrary_element on a degenerate seed (HKDF output 0 mod p or in the kernel of the cofactor map)", "")
     ELSE IF ev.out.t # "elem" THEN PBad("C14: arbitrary_element raised", BytesToHex(GEnc(g, e)))
     ELSE IF HexToBytes(ev.out.enc) # GEnc(g, e) THEN PBad("C14: arbitrary_element is not the published construction", BytesToHex(GEnc(g, e)))
     ELSE IF ~(GIsMember(g, e) /\ e # GIdentity(g)) THEN PBad("C14: the published construction leaves the subgroup", "")
     ELSE IF ~ClsOK(g, e, ev.out.cls) THEN PBad("C14: arbitrary_element result type", "")
     ELSE PGood

(* ---- C15: codecs ------------------------------------------------------------ *)
VN2BTable(ev) ==
  LET mv  == NLit(ev.maxval)
      bad == {n \in 0..ev.maxval :
                LET r == NumberToBytes(NLit(n), mv)
                IN ~(r.ok /\ HexToBytes(ev.outs[n + 1]) = r.v /\ Len(r.v) = SizeBytes(mv) /\ ev.back[n + 1] = n)}
  IN IF Len(ev.outs) # ev.maxval + 1 THEN PBad("harness: table size", "")
     ELSE IF bad # {} THEN PBad("C15: number_to_bytes/bytes_to_number(" \o ToString(FirstBad(bad)) \o ", " \o ToString(ev.maxval) \o ")", "")
     ELSE IF ev.over = "" THEN PBad("C15: number_to_bytes(maxval+1, maxval) did not raise", "")
     ELSE IF ev.size_bytes # SizeBytes(mv) \/ ev.size_bits # SizeBits(mv) THEN PBad("C15: size_bits/size_bytes", "")
     ELSE PGood
VN2B(ev) ==
  LET r == NumberToBytes(PHNum(ev.num), PHNum(ev.maxval))
  IN IF r.ok # (ev.out.t = "val") THEN PBad("C15: number_to_bytes raises iff num > maxval", "")
     ELSE IF r.ok /\ (HexToBytes(ev.out.v) # r.v \/ PHNum(ev.back) # PHNum(ev.num)) THEN PBad("C15: number_to_bytes / bytes_to_number", BytesToHex(r.v))
     ELSE PGood
VSCodec(ev) ==
  LET g == GroupTable[ev.grp]
      k == PHNum(ev.k)
      e == GScalarEnc(g, k)
  IN IF ~NLt(k, GOrder(g)) THEN PBad("harness: scalar out of range", "")
     ELSE IF HexToBytes(ev.enc) # e.v \/ Len(e.v) # GSSize(g) THEN PBad("C15: scalar_to_bytes", BytesToHex(e.v))
     ELSE IF PHNum(ev.dec) # k THEN PBad("C15: bytes_to_scalar(scalar_to_bytes(k)) # k", "")
     ELSE PGood

(* ---- C17: transcript hash ---------------------------------------------------- *)
VFinalize(ev) ==
  LET k == Finalize(HexToBytes(ev.idA), HexToBytes(ev.idB), HexToBytes(ev.X), HexToBytes(ev.Y), HexToBytes(ev.K), HexToBytes(ev.pw))
  IN IF HexToBytes(ev.out) = k THEN PGood ELSE PBad("C17: finalize_SPAKE2", BytesToHex(k))
VFinalizeSym(ev) ==
  LET k == FinalizeSym(HexToBytes(ev.idS), HexToBytes(ev.m1), HexToBytes(ev.m2), HexToBytes(ev.K), HexToBytes(ev.pw))
  IN IF HexToBytes(ev.out) # k THEN PBad("C17: finalize_SPAKE2_symmetric", BytesToHex(k))
     ELSE IF HexToBytes(ev.swapped) # k THEN PBad("C17: finalize_SPAKE2_symmetric is not symmetric in the messages", BytesToHex(k))
     ELSE PGood

(* ---- C18: the shipped constants ---------------------------------------------- *)
Pub == JsonDeserialize("published.json")
VParamsSound(ev) ==
  LET r  == ev.live
      g  == PGroupOf(r)
      pg == PGroupOf(Pub.groups[ev.group])
      ps == [grp |-> g, M |-> GArbElem(g, HexToBytes(ev.seeds.M)), N |-> GArbElem(g, HexToBytes(ev.seeds.N)),
             S |-> GArbElem(g, HexToBytes(ev.seeds.S))]
  IN IF g # pg THEN PBad("C18: group constants differ from the published ones", "")
     ELSE IF ~(IF IsEd(g) THEN EdParamsSound(g) ELSE IntParamsSound(g)) THEN PBad("C18: group is not a sound prime-order group", "")
     ELSE IF ev.seeds # Pub.seeds THEN PBad("C18: M/N/S seeds differ from the released ones", "")
     ELSE IF ~ElementsSound(ps) THEN PBad("C18: M, N, S are not pairwise distinct non-identity subgroup members", "")
     ELSE IF HexToBytes(ev.M) # GEnc(g, ps.M) \/ HexToBytes(ev.N) # GEnc(g, ps.N) \/ HexToBytes(ev.S) # GEnc(g, ps.S)
          THEN PBad("C18/C14: live M, N, S are not the released constants", "")
     ELSE IF HexToBytes(ev.base) # GEnc(g, GBase(g)) THEN PBad("C18: live base point / generator", "")
     ELSE IF ev.default # "ParamsEd25519" THEN PBad("C18: Ed25519 is not the default parameter set", "ParamsEd25519")
     ELSE PGood
VCtorTable(ev) ==
  LET bad == {g \in 1..(ev.p - 1) : (ev.acc[g] = 1) # IG_ConstructorAccepts(NLit(ev.p), NLit(ev.q), NLit(g))}
  IN IF bad = {} THEN PGood ELSE PBad("C18: IntegerGroup constructor accepts/rejects g = " \o ToString(FirstBad(bad)), "")

(* ---- C04: the table of start() messages of one (class, password) over every scalar ---- *)
ParamTableP == [n \in DOMAIN PT.params |->
                 LET r == PT.params[n]
                     g == GroupTable[r.grp]
                 IN [grp |-> g,
                     M |-> GArbElem(g, HexToBytes(r.M)),
                     N |-> GArbElem(g, HexToBytes(r.N)),
                     S |-> GArbElem(g, HexToBytes(r.S))]]
VMsgTable(ev) ==
  LET ps  == ParamTableP[ev.ps]
      g   == ps.grp
      q   == NToInt(GOrder(g))
      pw  == HexToBytes(ev.pw)
      exp == [x \in 0..(q - 1) |-> <<SideByte(ev.cls)>> \o OutBytes(ev.cls, ps, pw, NLit(x))]
      got == [x \in 0..(q - 1) |-> HexToBytes(ev.msgs[x + 1])]
      bad == {x \in 0..(q - 1) : got[x] # exp[x]}
      bodies == {Tail(got[x]) : x \in 0..(q - 1)}
      subenc == {GEnc(g, GMul(g, GBase(g), NLit(k))) : k \in 0..(q - 1)}
  IN IF Len(ev.msgs) # q THEN PBad("harness: table size", "")
     ELSE IF bad # {} THEN PBad("C03/C04: start() message for scalar " \o ToString(FirstBad(bad)), BytesToHex(exp[FirstBad(bad)]))
     ELSE IF bodies # subenc THEN PBad("C04: the messages over all scalars are not exactly the subgroup, each element once", "")
     ELSE PGood

(* ---- beyond the listed properties: the unknown-group element API and util helpers ---- *)
(* points are given by their encodings; "zero" names the identity                    *)
UPoint(c, h) == IF h = "zero" THEN EdId ELSE EdDecodePoint(c, HexToBytes(h)).e
VUnknownOp(ev) ==
  LET c  == GroupTable[ev.grp]
      P  == UPoint(c, ev.a)
      e  == IF ev.fn = "add" THEN AffAdd(c, P, UPoint(c, ev.b)) ELSE AffMul(c, P, PHNum(ev.n))
  IN IF ev.out.t # "elem" THEN PBad("unknown-group element API raised", BytesToHex(EdEnc(c, e)))
     ELSE IF HexToBytes(ev.out.enc) # EdEnc(c, e) THEN PBad("unknown-group element " \o ev.fn \o " is not the Edwards group law", BytesToHex(EdEnc(c, e)))
     ELSE PGood
VUnknownDec(ev) ==        \* which curve points the lenient decoder accepts is not a listed property: only what it returns is checked
  LET c == GroupTable[ev.grp]
      r == EdDecodePoint(c, HexToBytes(ev.b))
  IN IF ev.out.t # "elem" THEN PGood
     ELSE IF ~r.ok THEN PBad("bytes_to_unknown_group_element returned an element for a string that encodes no curve point", "reject")
     ELSE IF HexToBytes(ev.out.enc) # HexToBytes(ev.b) THEN PBad("bytes_to_unknown_group_element does not re-encode", "")
     ELSE PGood
VMaskTable(ev) ==
  LET bad == {m \in 1..Len(ev.masks) : ev.masks[m] # GenerateMask(NLit(m))[1] \/ ev.nbytes[m] # GenerateMask(NLit(m))[2]}
  IN IF bad = {} THEN PGood ELSE PBad("generate_mask(" \o ToString(FirstBad(bad)) \o ")", "")
(* type misuse of the element API must raise; equal elements hash equally; Ed25519 private-key clamping *)
VMisuse(ev) == IF ev.raised = 1 THEN PGood ELSE PBad("element API accepted a misuse: " \o ev.what, "an exception")
VHashEq(ev) == IF ev.same = 1 THEN PGood ELSE PBad("equal elements have different hashes", "")
VClamp(ev) ==
  LET v   == NFromBytesLE(HexToBytes(ev.b))
      lo  == NLowBits(v, 254)
      exp == NAdd(NSub(lo, NLowBits(lo, 3)), NFromBytes(<<64>> \o Zeros(31)))     \* clear bits 0-2 and 255, set bit 254
  IN IF ev.out.t = "val" /\ PHNum(ev.out.v) = exp THEN PGood ELSE PBad("bytes_to_clamped_scalar", BytesToHex(NToBytes(exp, 32)))
(* a subgroup Element added to an arbitrary curve point (either order)            *)
VMixedAdd(ev) ==
  LET c == GroupTable[ev.grp]
      P == AffMul(c, EdBase(c), PHNum(ev.k))
      U == UPoint(c, ev.u)
      e == AffAdd(c, P, U)
  IN IF ev.out.t = "elem" /\ HexToBytes(ev.out.enc) = EdEnc(c, e) THEN PGood
     ELSE PBad("subgroup element + arbitrary curve point is not the Edwards sum", BytesToHex(EdEnc(c, e)))

PureVerdict(ev) ==
  CASE ev.op = "g_dec_table" -> VDecTable(ev)
    [] ev.op = "g_dec"       -> VDec(ev)
    [] ev.op = "g_add_row"   -> VAddRow(ev)
    [] ev.op = "g_mul_row"   -> VMulRow(ev)
    [] ev.op = "g_eq_row"    -> VEqRow(ev)
    [] ev.op = "g_neg_row"   -> VNegRow(ev)
    [] ev.op = "g_op"        -> VOp(ev)
    [] ev.op = "rr"          -> VRR(ev)
    [] ev.op = "rr_table"    -> VRRTable(ev)
    [] ev.op = "rs"          -> VRS(ev)
    [] ev.op = "rs_table"    -> VRSTable(ev)
    [] ev.op = "pw2s"        -> VPw2s(ev)
    [] ev.op = "arb"         -> VArb(ev)
    [] ev.op = "n2b_table"   -> VN2BTable(ev)
    [] ev.op = "n2b"         -> VN2B(ev)
    [] ev.op = "s_codec"     -> VSCodec(ev)
    [] ev.op = "finalize"    -> VFinalize(ev)
    [] ev.op = "finalize_sym" -> VFinalizeSym(ev)
    [] ev.op = "params_sound" -> VParamsSound(ev)
    [] ev.op = "ctor_table"  -> VCtorTable(ev)
    [] ev.op = "misuse"      -> VMisuse(ev)
    [] ev.op = "hash_eq"     -> VHashEq(ev)
    [] ev.op = "clamp"       -> VClamp(ev)
    [] ev.op = "mixed_add"   -> VMixedAdd(ev)
    [] ev.op = "u_op"        -> VUnknownOp(ev)
    [] ev.op = "u_dec"       -> VUnknownDec(ev)
    [] ev.op = "mask_table"  -> VMaskTable(ev)
    [] ev.op = "msg_table"   -> VMsgTable(ev)
    [] ev.op = "ed_tab"      -> VEdTab(ev)
    [] ev.op = "ed_op"       -> VEdOp(ev)
    [] OTHER                 -> PBad("harness: unknown event " \o ev.op, "")
=============================================================================
