----------------------------- MODULE Spake2Core -----------------------------
(***************************************************************************)
(* The session layer of python-spake2 (spake2.py) in functional form:      *)
(* what each public call may return in a given instance state, and the     *)
(* successor state.  The API is sequential and deterministic given its     *)
(* inputs, so the next-state relation of Spake2.tla and the trace          *)
(* validator Spake2Trace.tla are both thin wrappers around these           *)
(* operators - there is one definition of every rule.                      *)
(*                                                                         *)
(* A parameter set is a record ps = [grp, M, N, S] (group record and three *)
(* element values).  An instance is a record, see NewInst.  Outcomes are   *)
(* records [t, v]: Msg(bytes), Key(bytes), Blob(record), Made(instance),   *)
(* Err(class).  Err("Rejected") stands for "raises something" wherever the *)
(* properties only demand that the call raises.                            *)
(***************************************************************************)
EXTENDS Group, Transcript, Sampler, TLC

Msg(b)  == [t |-> "msg",  v |-> b]
Key(b)  == [t |-> "key",  v |-> b]
Blob(r) == [t |-> "blob", v |-> r]
Made(s) == [t |-> "inst", v |-> s]
Err(c)  == [t |-> "err",  v |-> c]
IsErr(o) == o.t = "err"
IsKey(o) == o.t = "key"
IsMsg(o) == o.t = "msg"

(* an observed outcome matches a specified one                              *)
Matches(obs, spec) ==
  IF spec.t = "err" /\ spec.v = "Rejected" THEN obs.t = "err"
  ELSE obs = spec

Classes == {"A", "B", "S"}
SideByte(cls) == IF cls = "A" THEN 65 ELSE IF cls = "B" THEN 66 ELSE 83
Blinding(cls, ps)   == IF cls = "A" THEN ps.M ELSE IF cls = "B" THEN ps.N ELSE ps.S
Unblinding(cls, ps) == IF cls = "A" THEN ps.N ELSE IF cls = "B" THEN ps.M ELSE ps.S

(* the blinded element sent by start(): x.G + w.Blinding                       *)
OutElem(cls, ps, pw, x) ==
  LET g == ps.grp
  IN GAdd(g, GMul(g, GBase(g), x), GMul(g, Blinding(cls, ps), GPwScalar(g, pw)))
OutBytes(cls, ps, pw, x) == GEnc(ps.grp, OutElem(cls, ps, pw, x))

(* K = x.(peer - w.Unblinding)                                               *)
KElem(cls, ps, pw, x, peer) ==
  LET g == ps.grp
      w == GPwScalar(g, pw)
  IN GMul(g, GAdd(g, peer, GMul(g, Unblinding(cls, ps), GNegScalar(g, w))), x)

(* hash_params(): the restore fingerprint                                    *)
Fingerprint(cls, ps) ==
  LET g == ps.grp
      common == GEnc(g, GArbElem(g, <<>>)) \o GScalarEnc(g, GPwScalar(g, <<>>)).v
  IN IF cls = "S" THEN Hash(common \o GEnc(g, ps.S))
     ELSE Hash(common \o GEnc(g, ps.M) \o GEnc(g, ps.N))

(* ---------------------------------------------------------------------- *)
(* instances                                                              *)
(* ---------------------------------------------------------------------- *)
NewInst(cls, ps, pw, idA, idB) ==
  [cls |-> cls, ps |-> ps, pw |-> pw, idA |-> idA, idB |-> idB,   \* S: idA holds idSymmetric
   started |-> FALSE, finished |-> FALSE, gaveMsg |-> FALSE, gaveKey |-> FALSE,
   restored |-> FALSE, hasx |-> FALSE, x |-> NLit(0), out |-> <<>>,
   limbo |-> FALSE]      \* a start() failed because the entropy function raised (see StartOutcomes)

(* start(), given the scalar the entropy function produced                   *)
StartOutcome(s, x) ==
  IF s.started THEN Err("OnlyCallStartOnce")
  ELSE Msg(<<SideByte(s.cls)>> \o OutBytes(s.cls, s.ps, s.pw, x))
StartNext(s, x, o) ==
  IF o.t = "msg"
  THEN [s EXCEPT !.started = TRUE, !.gaveMsg = TRUE, !.hasx = TRUE, !.x = x,
                 !.out = Tail(o.v)]                     \* = OutBytes(s.cls, s.ps, s.pw, x)
  ELSE s

(* A start() whose entropy function RAISES returns no message (the scalar    *)
(* comes from the entropy function and from nothing else, C11), so the call  *)
(* raises.  Whether that call counts as "the" start() is left open by the    *)
(* properties (the code sets its flag first, so a retry raises               *)
(* OnlyCallStartOnce; an implementation that sets it last may serve the      *)
(* retry): the instance is in LIMBO - not started for every other purpose    *)
(* (finish() and serialize() raise, no scalar exists), and a later start()   *)
(* either raises OnlyCallStartOnce without drawing or draws and returns THE  *)
(* one message.                                                              *)
StartOutcomes(s, x) ==
  IF s.started THEN {Err("OnlyCallStartOnce")}
  ELSE IF s.limbo THEN {Err("OnlyCallStartOnce"), StartOutcome(s, x)}
  ELSE {StartOutcome(s, x)}
StartFailedNext(s) == IF s.started THEN s ELSE [s EXCEPT !.limbo = TRUE]

(* the side byte check of finish()  (C06)                                    *)
SideVerdict(cls, m) ==
  IF m = <<>> THEN "Rejected"
  ELSE LET b == m[1]
       IN IF cls \in {"A", "B"}
          THEN IF b = SideByte(cls) THEN "OffSides"
               ELSE IF b \in {65, 66} THEN "ok"
               ELSE "Rejected"
          ELSE IF b \in {65, 66} THEN "OffSides"
               ELSE IF b = 83 THEN "ok"
               ELSE "Rejected"

KeyFor(s, body, K) ==
  IF s.cls = "A" THEN Finalize(s.idA, s.idB, s.out, body, K, s.pw)
  ELSE IF s.cls = "B" THEN Finalize(s.idA, s.idB, body, s.out, K, s.pw)
  ELSE FinalizeSym(s.idA, body, s.out, K, s.pw)

(* what processing an inbound message yields (finish() not yet consumed)     *)
Process(s, m) ==
  LET sv == SideVerdict(s.cls, m) IN
  IF ~s.started THEN Err("Rejected")      \* finish() before start() raises (C07); which error, also for a wrong side label, is left open
  ELSE IF sv # "ok" THEN Err(sv)
  ELSE LET body == Tail(m)
           d    == GDec(s.ps.grp, body)
       IN IF ~d.ok THEN Err("Rejected")                            \* strict decoding (C05)
          ELSE IF GEnc(s.ps.grp, d.e) = s.out THEN Err("ReflectionThwarted")
          ELSE Key(KeyFor(s, body, GEnc(s.ps.grp, KElem(s.cls, s.ps, s.pw, s.x, d.e))))

(* finish(m) is single-use (C07): the first call is processed - whether it   *)
(* returns a key or raises - and EVERY further call raises                  *)
(* OnlyCallFinishOnce.  (The property anchors the mechanism: the flag is    *)
(* set before the inbound message is parsed.  An earlier, more permissive   *)
(* reading - a retry after a finish() that raised may be processed - let a  *)
(* seeded change through that re-armed finish() after a rejected reflection.)*)
FinishOutcomes(s, m) ==
  IF s.finished THEN {Err("OnlyCallFinishOnce")}
  ELSE {Process(s, m)}
FinishNext(s, o) ==
  IF o = Err("OnlyCallFinishOnce") THEN s
  ELSE [s EXCEPT !.finished = TRUE, !.gaveKey = (o.t = "key")]

(* serialize()                                                               *)
BlobOf(s) ==
  LET base == [hashed_params |-> Fingerprint(s.cls, s.ps),
               side |-> <<SideByte(s.cls)>>,
               password |-> s.pw,
               xy_scalar |-> GScalarEnc(s.ps.grp, s.x).v]
  IN IF s.cls = "S" THEN base @@ [idS |-> s.idA]
     ELSE base @@ [idA |-> s.idA, idB |-> s.idB]
SerializeOutcome(s) ==
  IF ~s.started THEN (IF s.limbo THEN Err("Rejected") ELSE Err("SerializedTooEarly"))   \* limbo: start() was called, any error
  ELSE Blob(BlobOf(s))

(* from_serialized(blob) called on class cls with parameters ps  (C08-C10)   *)
BlobFieldsAB == {"hashed_params", "side", "password", "xy_scalar", "idA", "idB"}
BlobFieldsS  == {"hashed_params", "side", "password", "xy_scalar", "idS"}
RestoredInst(cls, ps, b, x) ==
  LET s0 == IF cls = "S" THEN NewInst(cls, ps, b.password, b.idS, <<>>)
            ELSE NewInst(cls, ps, b.password, b.idA, b.idB)
  IN [s0 EXCEPT !.started = TRUE, !.restored = TRUE, !.hasx = TRUE, !.x = x,
                !.out = OutBytes(cls, ps, b.password, x)]
RestoreOutcome(cls, ps, b) ==
  IF cls = "S" /\ b.side # <<83>> THEN Err("WrongSideSerialized")
  ELSE IF cls # "S" /\ ~(BlobFieldsAB \subseteq DOMAIN b) THEN Err("Rejected")  \* Symmetric state offered to A/B
  ELSE IF cls = "S" /\ ~(BlobFieldsS \subseteq DOMAIN b) THEN Err("Rejected")
  ELSE IF b.side # <<SideByte(cls)>> THEN Err("WrongSideSerialized")
  ELSE IF b.hashed_params # Fingerprint(cls, ps) THEN Err("WrongGroupError")
  ELSE LET d == GScalarDec(ps.grp, b.xy_scalar)
       IN IF ~d.ok THEN Err("Rejected")
          ELSE Made(RestoredInst(cls, ps, b, d.e))

(* abstraction of an instance that persist/restore must preserve (C08)      *)
Abs(s) == [cls |-> s.cls, ps |-> s.ps, pw |-> s.pw, idA |-> s.idA, idB |-> s.idB,
           x |-> NMod(s.x, GOrder(s.ps.grp)), out |-> s.out, started |-> s.started]
=============================================================================
