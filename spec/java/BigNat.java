// TLC module overrides for BigNat.tla: natural numbers of arbitrary size are
// represented in TLA+ as canonical big-endian byte sequences (no leading zero
// byte; zero is <<>>).  Only bignum primitives, SHA-256 and hex conversion are
// foreign; everything built from them (HKDF, group laws, codecs, the protocol)
// is defined in TLA+.
import java.math.BigInteger;
import java.security.MessageDigest;

import tlc2.value.impl.BoolValue;
import tlc2.value.impl.IntValue;
import tlc2.value.impl.StringValue;
import tlc2.value.impl.TupleValue;
import tlc2.value.impl.Value;

public class BigNat {
    private static final Value[] BYTE = new Value[256];
    static {
        for (int i = 0; i < 256; i++) BYTE[i] = IntValue.gen(i);
    }

    private static byte[] bytesOf(Value v) {
        Value t0 = v.toTuple();
        if (t0 == null) throw new RuntimeException("BigNat: not a sequence: " + v);
        TupleValue t = (TupleValue) t0;
        byte[] out = new byte[t.elems.length];
        for (int i = 0; i < out.length; i++) {
            int b = ((IntValue) t.elems[i]).val;
            if (b < 0 || b > 255) throw new RuntimeException("BigNat: not a byte: " + b);
            out[i] = (byte) b;
        }
        return out;
    }

    private static Value seqOf(byte[] bs, int from) {
        Value[] el = new Value[bs.length - from];
        for (int i = from; i < bs.length; i++) el[i - from] = BYTE[bs[i] & 0xff];
        return new TupleValue(el);
    }

    private static BigInteger big(Value v) {
        return new BigInteger(1, bytesOf(v));
    }

    private static Value nat(BigInteger b) {
        if (b.signum() < 0) throw new RuntimeException("BigNat: negative result");
        if (b.signum() == 0) return TupleValue.EmptyTuple;
        byte[] bs = b.toByteArray();
        int from = (bs[0] == 0) ? 1 : 0;
        return seqOf(bs, from);
    }

    public static Value BAdd(Value a, Value b) { return nat(big(a).add(big(b))); }
    public static Value BSub(Value a, Value b) { return nat(big(a).subtract(big(b))); }
    public static Value BMul(Value a, Value b) { return nat(big(a).multiply(big(b))); }
    public static Value BDiv(Value a, Value b) { return nat(big(a).divide(big(b))); }
    public static Value BMod(Value a, Value b) { return nat(big(a).mod(big(b))); }
    public static Value BModExp(Value a, Value e, Value m) { return nat(big(a).modPow(big(e), big(m))); }
    public static Value BLt(Value a, Value b) { return big(a).compareTo(big(b)) < 0 ? BoolValue.ValTrue : BoolValue.ValFalse; }
    public static Value BBitLen(Value a) { return IntValue.gen(big(a).bitLength()); }
    public static Value BOdd(Value a) { return big(a).testBit(0) ? BoolValue.ValTrue : BoolValue.ValFalse; }
    public static Value BShr(Value a, Value k) { return nat(big(a).shiftRight(((IntValue) k).val)); }
    public static Value BAndLow(Value a, Value k) {
        // a mod 2^k
        return nat(big(a).mod(BigInteger.ONE.shiftLeft(((IntValue) k).val)));
    }
    public static Value BFromInt(Value k) { return nat(BigInteger.valueOf(((IntValue) k).val)); }
    public static Value BToInt(Value a) {
        BigInteger b = big(a);
        if (b.bitLength() > 31) throw new RuntimeException("BigNat: BToInt overflow");
        return IntValue.gen(b.intValue());
    }
    // canonicalise an arbitrary byte sequence (strip leading zero bytes)
    public static Value BFromBytes(Value bs) { return nat(big(bs)); }
    // big-endian, exactly len bytes
    public static Value BToBytes(Value a, Value len) {
        int n = ((IntValue) len).val;
        byte[] raw = bytesOf(a);
        if (raw.length > n) throw new RuntimeException("BigNat: BToBytes does not fit");
        byte[] out = new byte[n];
        System.arraycopy(raw, 0, out, n - raw.length, raw.length);
        return seqOf(out, 0);
    }

    public static Value Sha256(Value bs) throws Exception {
        MessageDigest md = MessageDigest.getInstance("SHA-256");
        return seqOf(md.digest(bytesOf(bs)), 0);
    }

    public static Value ByteXor(Value a, Value b) {
        return BYTE[(((IntValue) a).val ^ ((IntValue) b).val) & 0xff];
    }

    public static Value HexToBytes(Value s) {
        String h = ((StringValue) s).getVal().toString();
        if ((h.length() & 1) != 0) throw new RuntimeException("BigNat: odd hex length");
        byte[] out = new byte[h.length() / 2];
        for (int i = 0; i < out.length; i++)
            out[i] = (byte) Integer.parseInt(h.substring(2 * i, 2 * i + 2), 16);
        return seqOf(out, 0);
    }

    public static Value BytesToHex(Value bs) {
        byte[] b = bytesOf(bs);
        StringBuilder sb = new StringBuilder();
        for (byte x : b) sb.append(String.format("%02x", x & 0xff));
        return new StringValue(sb.toString());
    }

    // is the string an even-length string of hex digits (what binascii.unhexlify accepts)
    public static Value IsHexString(Value s) {
        String h = ((StringValue) s).getVal().toString();
        if ((h.length() & 1) != 0) return BoolValue.ValFalse;
        for (int i = 0; i < h.length(); i++)
            if (Character.digit(h.charAt(i), 16) < 0 || h.charAt(i) > 127) return BoolValue.ValFalse;
        return BoolValue.ValTrue;
    }

    // ASCII codes of a TLA+ string (for info strings such as "SPAKE2 pw")
    public static Value StrToBytes(Value s) {
        String h = ((StringValue) s).getVal().toString();
        byte[] out = h.getBytes(java.nio.charset.StandardCharsets.ISO_8859_1);
        return seqOf(out, 0);
    }
}
