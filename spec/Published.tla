------------------------------ MODULE Published ------------------------------
(***************************************************************************)
(* The specification validated against PUBLISHED data (spec/published.json, *)
(* committed, independent of the working tree): the library's released     *)
(* test vectors (password-to-scalar, scalar-to-bytes, arbitrary-element,   *)
(* finalize, both end-to-end vectors with the peeked scalars), RFC 5869    *)
(* HKDF vectors, FIPS 180 SHA-256 vectors, the NIST/J-PAKE group constants *)
(* and the RFC 8032 curve constants.  This pins the 0.7+ wire format in    *)
(* the specification itself; the code is then validated against the        *)
(* specification.  Evaluated by TLC in the FULL-SIZE instance.             *)
(***************************************************************************)
EXTENDS Spake2Core, Json, TLC

P == JsonDeserialize("published.json")
HB(h) == HexToBytes(h)
HN(h) == NFromBytes(HexToBytes(h))
PubGroup(name) ==
  LET r == P.groups[name]
  IN IF r.kind = "int" THEN [kind |-> "int", p |-> HN(r.p), q |-> HN(r.q), g |-> HN(r.g)]
     ELSE MkCurve(HN(r.Q), HN(r.d), HN(r.L), HN(r.By))
PubGroups == [n \in DOMAIN P.groups |-> PubGroup(n)]
PubParams(name) ==
  LET g == PubGroups[name]
  IN [grp |-> g, M |-> GArbElem(g, HB(P.seeds.M)), N |-> GArbElem(g, HB(P.seeds.N)), S |-> GArbElem(g, HB(P.seeds.S))]

Sha256OK == \A i \in 1..Len(P.sha256) : Sha256(HB(P.sha256[i].msg)) = HB(P.sha256[i].digest)
HkdfOK ==
  \A i \in 1..Len(P.hkdf) :
    LET v == P.hkdf[i]
    IN /\ Hkdf(HB(v.IKM), HB(v.salt), HB(v.info), v.L) = HB(v.OKM)
       /\ (v.PRK # "") => HkdfExtract(HB(v.salt), HB(v.IKM)) = HB(v.PRK)
P2SOK == \A i \in 1..Len(P.p2s) :
           LET v == P.p2s[i]  g == PubGroups[v.group]
           IN GScalarEnc(g, GPwScalar(g, HB(v.pw_hex))).v = HB(v.bytes_hex)
S2BOK == \A i \in 1..Len(P.s2b) :
           LET v == P.s2b[i]  g == PubGroups[v.group]
           IN /\ GScalarEnc(g, HN(v.scalar)).v = HB(v.bytes_hex)
              /\ GScalarDec(g, HB(v.bytes_hex)).e = HN(v.scalar)
AEOK == \A i \in 1..Len(P.ae) :
          LET v == P.ae[i]  g == PubGroups[v.group]
          IN GEnc(g, GArbElem(g, HB(v.seed_hex))) = HB(v.element_hex)
FinalizeOK ==
  /\ LET v == P.finalize IN Finalize(HB(v.idA), HB(v.idB), HB(v.X), HB(v.Y), HB(v.K), HB(v.pw)) = HB(v.key)
  /\ LET v == P.finalize_sym
     IN /\ FinalizeSym(HB(v.idS), HB(v.m1), HB(v.m2), HB(v.K), HB(v.pw)) = HB(v.key)
        /\ FinalizeSym(HB(v.idS), HB(v.m2), HB(v.m1), HB(v.K), HB(v.pw)) = HB(v.key)

(* the deterministic generator of the library's test-suite (test/common.py)   *)
RECURSIVE DecDigits(_)
DecDigits(k) == IF k < 10 THEN <<48 + k>> ELSE DecDigits(k \div 10) \o <<48 + (k % 10)>>
PRGBlock(seed, k) == Sha256(StrToBytes("prng-") \o DecDigits(k) \o <<45>> \o seed)
PRG64(seed) == PRGBlock(seed, 0) \o PRGBlock(seed, 1)
EntLog64(seed) == << [req |-> 64, got |-> PRG64(seed)] >>

Ed == PubGroups["Ed25519"]
EdPS == PubParams("Ed25519")
Started(cls, pw, x) == StartNext(NewInst(cls, EdPS, pw, <<>>, <<>>), x, StartOutcome(NewInst(cls, EdPS, pw, <<>>, <<>>), x))
E2EAsymmetricOK ==
  LET v  == P.e2e_ab
      pw == HB(v.pw)
      x  == EdRandomScalar(Ed.L, EntLog64(<<65>>)).v
      y  == EdRandomScalar(Ed.L, EntLog64(<<66>>)).v
      a  == Started("A", pw, x)
      b  == Started("B", pw, y)
  IN /\ GPwScalar(Ed, pw) = HN(v.w)
     /\ x = HN(v.x) /\ y = HN(v.y)
     /\ StartOutcome(NewInst("A", EdPS, pw, <<>>, <<>>), x) = Msg(HB(v.msgA))
     /\ StartOutcome(NewInst("B", EdPS, pw, <<>>, <<>>), y) = Msg(HB(v.msgB))
     /\ Process(a, HB(v.msgB)) = Key(HB(v.key))
     /\ Process(b, HB(v.msgA)) = Key(HB(v.key))
E2ESymmetricOK ==
  LET v  == P.e2e_sym
      pw == HB(v.pw)
      x1 == EdRandomScalar(Ed.L, EntLog64(<<49>>)).v
      x2 == EdRandomScalar(Ed.L, EntLog64(<<50>>)).v
      s1 == Started("S", pw, x1)
      s2 == Started("S", pw, x2)
  IN /\ StartOutcome(NewInst("S", EdPS, pw, <<>>, <<>>), x1) = Msg(HB(v.msg1))
     /\ StartOutcome(NewInst("S", EdPS, pw, <<>>, <<>>), x2) = Msg(HB(v.msg2))
     /\ Process(s1, HB(v.msg2)) = Key(HB(v.key))
     /\ Process(s2, HB(v.msg1)) = Key(HB(v.key))
MsgSizesOK == \A n \in DOMAIN P.msg_sizes : 1 + GESize(PubGroups[n]) = P.msg_sizes[n]
BasePointOK == /\ Ed.Bx = HN(P.groups.Ed25519.Bx)            \* RFC 8032 base point, x even
               /\ OnCurve(Ed, EdBase(Ed))

ASSUME PrintT(<<"Sha256OK", Sha256OK>>) /\ Sha256OK
ASSUME PrintT(<<"HkdfOK", HkdfOK>>) /\ HkdfOK
ASSUME PrintT(<<"P2SOK", P2SOK>>) /\ P2SOK
ASSUME PrintT(<<"S2BOK", S2BOK>>) /\ S2BOK
ASSUME PrintT(<<"AEOK", AEOK>>) /\ AEOK
ASSUME PrintT(<<"FinalizeOK", FinalizeOK>>) /\ FinalizeOK
ASSUME PrintT(<<"E2EAsymmetricOK", E2EAsymmetricOK>>) /\ E2EAsymmetricOK
ASSUME PrintT(<<"E2ESymmetricOK", E2ESymmetricOK>>) /\ E2ESymmetricOK
ASSUME PrintT(<<"MsgSizesOK", MsgSizesOK>>) /\ MsgSizesOK
ASSUME PrintT(<<"BasePointOK", BasePointOK>>) /\ BasePointOK
VARIABLE dummy
Init == dummy = 0
Next == UNCHANGED dummy
=============================================================================
