----------------------------- MODULE MC_Axioms -----------------------------
(***************************************************************************)
(* C13 design check: the value-level group operations of the specification *)
(* (GAdd, GMul, GNeg, GEnc, GDec on the prime-order subgroup) satisfy the  *)
(* group axioms on a toy group - exhaustively.                             *)
(*   MODE = "triples": every (a, b, c) of subgroup elements                *)
(*   MODE = "scalars": every (a, b) and every scalar pair (m, n) in        *)
(*                     [-q, 2q] x SCALARS                                  *)
(* One initial state per tuple.                                            *)
(***************************************************************************)
EXTENDS Toy, TLC

CONSTANTS MODE, SCALARS

G == ToyGroup
q == NToInt(GOrder(G))
Id == GIdentity(G)
(* scalar multiplication by any integer, as the API offers it                *)
MulZ(e, n) == GMul(G, e, n % q)
RECURSIVE NFold(_, _)
NFold(e, n) == IF n = 0 THEN Id ELSE GAdd(G, NFold(e, n - 1), e)
Inverse(e) == CHOOSE f \in Subgroup(G) : GAdd(G, e, f) = Id

VARIABLES a, b, c, m, n, sub, ready
v == <<a, b, c, m, n, sub, ready>>
(* two-stage fan-out: the initial states fix a, the step picks the rest, so     *)
(* that all TLC workers share the tuples                                      *)
Init == sub = Subgroup(G) /\ a \in sub /\ b = a /\ c = a /\ m = 0 /\ n = 0 /\ ready = FALSE
Next == /\ ~ready /\ ready' = TRUE
        /\ b' \in sub
        /\ IF MODE = "triples" THEN c' \in sub /\ m' = 0 /\ n' = 0
           ELSE c' = Id /\ m' \in (0 - q)..(2 * q) /\ n' \in {s - q : s \in SCALARS}   \* cfg files cannot hold negative numbers
        /\ UNCHANGED <<a, sub>>
Spec == Init /\ [][Next]_v
Ready == ready

Closed(e) == e \in sub
AddAxioms == Ready =>
  /\ GAdd(G, a, b) = GAdd(G, b, a)
  /\ GAdd(G, GAdd(G, a, b), c) = GAdd(G, a, GAdd(G, b, c))
  /\ GAdd(G, a, Id) = a /\ GAdd(G, Id, a) = a
  /\ Closed(GAdd(G, a, b))
  /\ GAdd(G, a, GNeg(G, a)) = Id /\ Closed(GNeg(G, a))
  /\ (a = b) <=> (GEnc(G, a) = GEnc(G, b))
  /\ (GRefusesIdentity(G) /\ a = Id) \/ (GDec(G, GEnc(G, a)).ok /\ GDec(G, GEnc(G, a)).e = a)
MulAxioms ==
  (Ready /\ MODE = "scalars") =>
    /\ MulZ(a, m) = (IF m >= 0 THEN NFold(a, m) ELSE Inverse(NFold(a, 0 - m)))
    /\ MulZ(a, m) = MulZ(a, m + q) /\ MulZ(a, m) = MulZ(a, m % q)
    /\ Closed(MulZ(a, m))
    /\ MulZ(a, m + n) = GAdd(G, MulZ(a, m), MulZ(a, n))
    /\ MulZ(GAdd(G, a, b), m) = GAdd(G, MulZ(a, m), MulZ(b, m))
    /\ MulZ(a, m * n) = MulZ(MulZ(a, m), n)
    /\ MulZ(a, 0) = Id /\ MulZ(a, 1) = a /\ MulZ(a, 0 - 1) = GNeg(G, a)
ASSUME Cardinality(Subgroup(G)) = q /\ Id \in Subgroup(G) /\ GBase(G) \in Subgroup(G)
=============================================================================
