------------------------------- MODULE Codec -------------------------------
(***************************************************************************)
(* util.py: size_bits, size_bytes, number_to_bytes, bytes_to_number,       *)
(* generate_mask.  Numbers are N-values (module Num), sizes are TLA+ Ints. *)
(***************************************************************************)
EXTENDS Num, Bytes

SizeBits(maxval)  == IF NIsZero(maxval) THEN 1 ELSE NBitLen(maxval)
SizeBytes(maxval) == (SizeBits(maxval) + 7) \div 8

(* number_to_bytes(num, maxval): defined for 0 <= num <= maxval, otherwise   *)
(* the call raises; result record [ok, v]                                     *)
NumberToBytes(num, maxval) ==
  IF NLt(maxval, num) THEN [ok |-> FALSE, v |-> <<>>]
  ELSE [ok |-> TRUE, v |-> NToBytes(num, SizeBytes(maxval))]
BytesToNumber(b) == NFromBytes(b)

(* generate_mask(maxval) = (top byte mask, number of bytes)                   *)
RECURSIVE Pow2(_)
Pow2(k) == IF k = 0 THEN 1 ELSE 2 * Pow2(k - 1)
TopMask(maxval) == LET r == SizeBits(maxval) % 8 IN IF r = 0 THEN 255 ELSE Pow2(r) - 1
GenerateMask(maxval) == <<TopMask(maxval), SizeBytes(maxval)>>

(* little-endian fixed width (Ed25519 scalars and points)                     *)
NToBytesLE(a, len) == Reverse(NToBytes(a, len))
NFromBytesLE(b)    == NFromBytes(Reverse(b))
=============================================================================
