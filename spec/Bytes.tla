------------------------------- MODULE Bytes -------------------------------
(* Byte strings are Seq(0..255), as Python's bytes.                          *)
EXTENDS Integers, Sequences

Zeros(n) == [i \in 1..n |-> 0]
Take(b, n) == SubSeq(b, 1, IF n < Len(b) THEN n ELSE Len(b))
Drop(b, n) == SubSeq(b, n + 1, Len(b))
Reverse(b) == [i \in 1..Len(b) |-> b[Len(b) + 1 - i]]

(* Python's ordering of bytes objects: lexicographic, a proper prefix first  *)
RECURSIVE BytesLeFrom(_, _, _)
BytesLeFrom(a, b, i) ==
  IF i > Len(a) THEN TRUE
  ELSE IF i > Len(b) THEN FALSE
  ELSE IF a[i] < b[i] THEN TRUE
  ELSE IF a[i] > b[i] THEN FALSE
  ELSE BytesLeFrom(a, b, i + 1)
BytesLe(a, b) == BytesLeFrom(a, b, 1)

IsBytes(b) == \A i \in 1..Len(b) : b[i] \in 0..255
IsPrintableAscii(b) == \A i \in 1..Len(b) : b[i] \in 32..126
=============================================================================
