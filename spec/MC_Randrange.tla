---------------------------- MODULE MC_Randrange ----------------------------
(***************************************************************************)
(* C11 design check of util.unbiased_randrange as specified in Sampler:    *)
(* for EVERY range width in WIDTHS (one initial state each) and EVERY first  *)
(* draw of size_bytes(width) bytes:                                        *)
(*  - the masked candidate is the draw modulo 2^bits (LowBits), hence      *)
(*  - every value of [start, start+width) is returned for exactly          *)
(*    2^(8*nb - bits) first draws, no value outside is ever returned, and  *)
(*    a draw is accepted with probability width/2^bits >= 1/2 (Uniform);   *)
(*  - the function of an entropy log agrees with the obvious loop          *)
(*    semantics for all logs of up to two draws (Loop).                    *)
(***************************************************************************)
EXTENDS Sampler, FiniteSets, TLC

CONSTANTS WIDTHS, STARTS, PAIRW    \* PAIRW: widths up to which all two-draw logs are tried

(* Two-stage fan-out (TLC evaluates initial states on one thread): stage 1   *)
(* picks a residue class, stage 2 a width of that class; the invariants are   *)
(* evaluated on the stage-2 states by all workers.                            *)
NPART == 16
AllBelow2p16 == 1..65535       \* for cfg: WIDTHS <- AllBelow2p16
VARIABLES width, part
Init == width = 0 /\ part = 0
Next == \/ part = 0 /\ part' \in 1..NPART /\ UNCHANGED width
        \/ part > 0 /\ width = 0 /\ width' \in {w \in WIDTHS : w % NPART = part - 1} /\ UNCHANGED part
Spec == Init /\ [][Next]_<<width, part>>
Ready == width > 0

nb   == SizeBytes(width)
bits == SizeBits(width)
(* per state: the table of masked candidates of every first draw              *)
CandTable(n, mp1) == [r \in 0..(Pow2(8 * n) - 1) |-> CandidateM(NToBytes(r, n), mp1)]

LowBits == Ready =>
  LET n == nb  bb == bits  tab == CandTable(n, TopMask(width) + 1)  m == Pow2(bb)
  IN \A r \in DOMAIN tab : tab[r] = r % m
Shape == Ready =>
         /\ (Pow2(bits - 1) <= width /\ width < Pow2(bits))
         /\ nb = (bits + 7) \div 8 /\ 8 * nb >= bits /\ 8 * nb - bits <= 7
         /\ 2 * width >= Pow2(bits)                                \* acceptance probability >= 1/2
         /\ TopMask(width) + 1 = Pow2(bits - 8 * (nb - 1))
(* counted directly for one-byte ranges; for wider ranges it follows from LowBits *)
Uniform == (Ready /\ nb = 1) =>
  LET tab == CandTable(1, TopMask(width) + 1) IN
  /\ \A v \in 0..(width - 1) : Cardinality({r \in DOMAIN tab : tab[r] = v}) = Pow2(8 - bits)
  /\ Cardinality({r \in DOMAIN tab : tab[r] < width}) = width * Pow2(8 - bits)
One(n, r) == << [req |-> n, got |-> NToBytes(r, n)] >>
Two(n, r1, r2) == << [req |-> n, got |-> NToBytes(r1, n)], [req |-> n, got |-> NToBytes(r2, n)] >>
Loop == Ready =>
  LET n == nb  tab == CandTable(n, TopMask(width) + 1) IN
  \A s \in STARTS :
    /\ \A r \in DOMAIN tab :
         LET res == Randrange(s, s + width, One(n, r))
         IN IF tab[r] < width THEN res.ok /\ res.v = s + tab[r] /\ res.v >= s /\ res.v < s + width
            ELSE ~res.ok
    /\ (width <= PAIRW) =>
         \A r1 \in DOMAIN tab, r2 \in DOMAIN tab :
           LET res == Randrange(s, s + width, Two(n, r1, r2))
           IN res.ok <=> (tab[r1] >= width /\ tab[r2] < width)
    /\ ~Randrange(s, s + width, <<>>).ok
    /\ (n + 1) % n # 0 => ~Randrange(s, s + width, << [req |-> n + 1, got |-> Zeros(n + 1)] >>).ok      \* not a whole number of draws
(* Compositional argument for EVERY width below 2^16 (too many to enumerate    *)
(* draw by draw): MaskLemma - for each number of bytes n and each top-byte     *)
(* mask 2^k - 1, masking the first byte of an n-byte draw r gives              *)
(* r mod 2^(8(n-1)+k), for all 256^n draws (it does not depend on the width);  *)
(* ShapeAll - for every width the mask and byte count are the ones with        *)
(* 8(n-1)+k = bits(width) and 2^(bits-1) <= width < 2^bits.  Together: the     *)
(* candidate is uniform on [0, 2^bits) and accepted iff below width.           *)
MaskLemma ==
  (width = 1 /\ part = 1) =>        \* evaluated once
    \A n \in 1..2, k \in 1..8 :
      \A r \in 0..(Pow2(8 * n) - 1) :
        CandidateM(NToBytes(r, n), Pow2(k)) = r % Pow2(8 * (n - 1) + k)

(* Ed25519: exactly one request of 64 bytes, reduced mod L                     *)
ASSUME EdRandomScalar(5, << [req |-> 64, got |-> Zeros(63) \o <<13>>] >>) = SamplerOK(3)
ASSUME ~EdRandomScalar(5, << [req |-> 32, got |-> Zeros(32)] >>).ok
ASSUME EdRandomScalar(5, << [req |-> 32, got |-> Zeros(32)], [req |-> 32, got |-> Zeros(31) \o <<13>>] >>) = SamplerOK(3)
ASSUME ~EdRandomScalar(5, << [req |-> 64, got |-> Zeros(64)], [req |-> 1, got |-> <<0>>] >>).ok
ASSUME ~EdRandomScalar(5, <<>>).ok
=============================================================================
