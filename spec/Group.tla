------------------------------- MODULE Group -------------------------------
(***************************************************************************)
(* The value-level group API the session layer is written against,         *)
(* dispatching on grp.kind: "int" (IntGroup) or "ed" (Edwards).            *)
(* Elements are values (a number, or an affine point); scalars are         *)
(* non-negative numbers.                                                   *)
(***************************************************************************)
EXTENDS IntGroup, Edwards

IsEd(grp) == grp.kind = "ed"
GOrder(grp)    == IF IsEd(grp) THEN grp.L ELSE grp.q
GBase(grp)     == IF IsEd(grp) THEN EdBase(grp) ELSE IG_Base(grp)
GIdentity(grp) == IF IsEd(grp) THEN EdId ELSE IG_Identity(grp)
GESize(grp)    == IF IsEd(grp) THEN 32 ELSE IG_ESize(grp)
GSSize(grp)    == IF IsEd(grp) THEN 32 ELSE IG_SSize(grp)
GAdd(grp, a, b) == IF IsEd(grp) THEN AffAdd(grp, a, b) ELSE IG_Add(grp, a, b)
(* scalar multiplication of a SUBGROUP element: depends on n mod order only  *)
GMul(grp, a, n) == IF IsEd(grp) THEN AffMul(grp, a, NMod(n, grp.L)) ELSE IG_Mul(grp, a, n)
GNegScalar(grp, n) == LET q == GOrder(grp) IN NMod(NSub(q, NMod(n, q)), q)
GNeg(grp, a)   == GMul(grp, a, GNegScalar(grp, NLit(1)))
GEnc(grp, e)   == IF IsEd(grp) THEN EdEnc(grp, e) ELSE IG_Enc(grp, e)
GDec(grp, b)   == IF IsEd(grp) THEN EdDec(grp, b) ELSE IG_Dec(grp, b)
GRefusesIdentity(grp) == IsEd(grp)
GScalarEnc(grp, n) == IF IsEd(grp) THEN EdScalarEnc(grp, n) ELSE IG_ScalarEnc(grp, n)
GScalarDec(grp, b) == IF IsEd(grp) THEN EdScalarDec(grp, b) ELSE IG_ScalarDec(grp, b)
GArbElem(grp, seed) == IF IsEd(grp) THEN EdArbElem(grp, seed) ELSE IG_ArbElem(grp, seed)
GIsMember(grp, e) == IF IsEd(grp) THEN OnCurve(grp, e) /\ EdInSubgroup(grp, e) ELSE IG_IsMember(grp, e)

(* password_to_scalar: HKDF(pw, "", "SPAKE2 pw", scalar_size+16) big-endian mod q *)
GPwScalar(grp, pw) == NMod(NFromBytes(ExpandPw(pw, GSSize(grp) + 16)), GOrder(grp))
=============================================================================
